#!/bin/bash
# seed_matrix.sh <seedname> <PROP> [extra bin/check args...]
# Applies /verif/seeded/<seedname>/patch.diff to a scratch worktree of /repo HEAD, runs bin/check <PROP> against
# THAT tree (RG_VERIF_REPO), records the outcome in /verif/seeded/<seedname>/detection.<PROP>.log and removes the worktree.
set -u
NAME=$1; PROP=$2; shift 2
WT=/tmp/wt/seedrun_${NAME}_$PROP
git -C /repo worktree add -q --detach $WT HEAD || exit 2
if ! git -C $WT apply /verif/seeded/$NAME/patch.diff; then echo "patch does not apply"; git -C /repo worktree remove --force $WT; exit 2; fi
cd /verif
LOG=/verif/seeded/$NAME/detection.$PROP.log
t0=$(date +%s)
RG_VERIF_REPO=$WT VERIF_EVIDENCE_DIR=/tmp/wt/ev_${NAME}_$PROP bin/check $PROP "$@" > $LOG.full 2>&1
rc=$?
t1=$(date +%s)
{ echo "cmd: RG_VERIF_REPO=<worktree with patch> bin/check $PROP $*"; echo "exit=$rc wall=$((t1-t0))s"; grep -E "^(VIOLATION|KNOWN-FINDING|INCONCLUSIVE|  failed:|C[0-9]+ tier)" $LOG.full | cut -c1-400 | head -40; } > $LOG
rm -f $LOG.full
git -C /repo worktree remove --force $WT
rm -rf /tmp/wt/ev_${NAME}_$PROP
echo "$NAME $PROP exit=$rc"
