#!/bin/bash
# thorough-tier sanity: run the thorough command of the given properties one after the other into a SEPARATE evidence dir
cd /verif
: > /tmp/run_thorough.log
for p in "$@"; do
  t0=$(date +%s)
  VERIF_EVIDENCE_DIR=/tmp/ev_thorough bin/check $p --tier thorough > /tmp/run_thorough.$p.log 2>&1
  rc=$?
  t1=$(date +%s)
  echo "$p exit=$rc wall=$((t1-t0))s $(tail -1 /tmp/run_thorough.$p.log | cut -c1-160)" >> /tmp/run_thorough.log
done
echo ALLDONE >> /tmp/run_thorough.log
