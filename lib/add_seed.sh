#!/bin/bash
# add_seed.sh <name> <PROP> <dir with patch.diff demo.diff meta.json written by a sub-agent>
# Copies the sub-agent's files to /verif/seeded/<name>, confirms them (verify_seed.sh) and runs the property's
# full quick command against a worktree with the patch (seed_matrix.sh), both at once; merges the outcome into meta.json.
set -u
NAME=$1; PROP=$2; SRC=$3
D=/verif/seeded/$NAME
mkdir -p $D /tmp/wt
cp $SRC/patch.diff $SRC/meta.json $D/
[ -f $SRC/demo.diff ] && cp $SRC/demo.diff $D/
[ -f $SRC/demo.sh ] && cp $SRC/demo.sh $D/
/verif/lib/verify_seed.sh $D $NAME > /tmp/wt/add_$NAME.verify 2>&1 &
v=$!
/verif/lib/seed_matrix.sh $NAME $PROP > /tmp/wt/add_$NAME.detect 2>&1 &
m=$!
wait $v $m
python3 - "$D" "$PROP" <<'E'
import json, sys, re, os
d, prop = sys.argv[1], sys.argv[2]
meta = json.load(open(d + "/meta.json"))
meta["property"] = prop
last = open(d + "/verify.log").read().strip().splitlines()[-1]
meta["verified_by_framework_author"] = {
    "how": "lib/verify_seed.sh: fresh worktree of /repo HEAD; patch applied -> cargo test --workspace --no-fail-fast --offline; "
           "demo applied and run with the patch (must fail) and without it (must pass)",
    "result": last,
}
log = open(d + "/detection.%s.log" % prop).read()
m = re.search(r"exit=(\d+) wall=(\d+)s", log)
meta["detection"] = {prop: {
    "exit": int(m.group(1)) if m else None, "wall_s": int(m.group(2)) if m else None,
    "cmd": "RG_VERIF_REPO=<worktree with patch> bin/check %s" % prop,
    "violation_lines": [l[:300] for l in log.splitlines() if l.startswith("VIOLATION")][:6],
    "detected": bool(m and m.group(1) == "1" and "VIOLATION" in log),
}}
json.dump(meta, open(d + "/meta.json", "w"), indent=1)
print(os.path.basename(d), last, "| detection exit", meta["detection"][prop]["exit"], "detected", meta["detection"][prop]["detected"])
E
rm -f $D/verify_suite.log
