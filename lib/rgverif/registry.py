"""Obligation registry: which harness / query serves which property at which tier."""
import os
import threading
import time

from . import kani as K
from . import shapes as SH
from . import findings as F


class Obl:
    engine = "K"

    def __init__(self, name, props, crate, harness, tier="quick", timeout=300, fn=None,
                 shape=None, unwind=None, genfile=None, interesting=(), desc="", functions=(),
                 rules=None, bucket="", heavy=False):
        self.name = name  # unique obligation name
        self.props = props
        self.crate = crate
        self.harness = harness  # full harness path
        self.tier = tier  # quick => runs in both tiers
        self.timeout = timeout
        self.fn = fn or name
        self.shape = shape
        self.unwind = unwind
        self.genfile = genfile
        self.interesting = interesting
        self.desc = desc
        self.functions = functions
        self.rules = rules  # callable(nl, maxline, length) -> {regex: bound} (per-loop unwind bounds)
        self.bucket = bucket
        self.heavy = heavy  # needs > 5 GB: run few at a time with a 13 GB limit


# ----------------------------------------------------------------------------
# Kani obligations

SEARCHER = "grep-searcher"
CORE_MOD = "searcher::core::verif_kani"

LINES_FUNCS = ("grep_searcher::lines::locate", "lines::count", "lines::preceding",
               "lines::LineStep::next", "lines::without_terminator")


def unit(name, props, crate, module, *a, **kw):
    return _unit(name, props, crate, module, *a, **kw)


def _unit(name, props, crate, module, desc="", functions=(), timeout=180, tier="quick", interesting=(), heavy=False, rules=None, unwind=None, shape=None):
    return Obl(name, props, crate, module + "::" + name, tier=tier, timeout=timeout,
               desc=desc, functions=functions, interesting=interesting, heavy=heavy, rules=rules, unwind=unwind, shape=shape,
               bucket=("unit-" + name if rules else ""))


def printer_rules():
    """per-loop bounds for the summary-printer end-to-end harnesses (kani/printer/summary.rs: MAXL=3, MAXC=2)"""
    def f(nl, ml, ln):
        return {
            r"memchr::memchr::count_raw\.0": ln + 1,
            r"^memchr::memchr\.0": ml + 1,
            r"^memchr::memrchr\.0": ml + 1,
            r"^memcmp\.0": 3,
            r"lines::preceding_by_pos\.0": 2,
            r"before_context_by_line\.0": 2,
            r"after_context_by_line\.0": 2,
            r"other_context_by_line\.0": nl + 1,
            r"match_by_line_slow\.0": nl + 1,
            r"SliceByLine.*::run\.0": 2,
            r"LineIter.*fold": 3,
            r"try_find_iter_at": 6,
            r"write_all\.0": 2,
            r"LineTables::any\.0": ln + 2,
            r"LineTables::any\.1": 5,
            r"LineTables::any\.2": 5,
            r"LineTables::first_in_line\.0": 5,
            r"LineTables::count_in_line\.0": 10,
            r"LineTables.*find_at\.": 5,
            r"check_summary\.0": 5,
        }
    return f


MATCHER = "grep-matcher"
GLOBSET = "globset"
PRINTER = "grep-printer"

# Not registered (measured, do not finish within 25-30 min / 13 GB): the LineBuffer "drive" lemmas of
# kani/searcher/line_buffer.rs over fully symbolic sources (c02_linebuffer_*, c14_linebuffer_*,
# c16_linebuffer_read_error) and the differential c19_interpolate_diff (kani/matcher/interpolate.rs, TN=3).
# Their sources are kept for reference; nothing is claimed from them.
UNITS = [
    unit("c09_data_from_bytes", ["C09"], PRINTER, "jsont::verif_kani",
         "jsont::Data::from_bytes on fully symbolic <=4 bytes: Text iff valid UTF-8 (independent validator), bytes preserved",
         ["jsont::Data::from_bytes"], timeout=900),
    unit("c09_trim_line_terminator_crlf", ["C09"], PRINTER, "util::verif_kani",
         "printer::util::trim_line_terminator in CRLF mode on a line anywhere in a fully symbolic <=5-byte buffer: exactly \\r\\n (or a lone \\n) is trimmed",
         ["util::trim_line_terminator", "LineTerminator::is_suffix"], timeout=600),
    unit("c09_trim_line_terminator_lf", ["C09"], PRINTER, "util::verif_kani",
         "trim_line_terminator in LF mode on any range of a fully symbolic <=5-byte buffer: exactly a final \\n is trimmed",
         ["util::trim_line_terminator"], timeout=600),
    unit("c10_find_iter_terminated", ["C10", "C19", "C09"], PRINTER, "util::verif_kani",
         "printer::util::find_iter_at_in_context on a terminated line with a symbolic span table == the pattern's successive "
         "matches in the line's content", ["util::find_iter_at_in_context", "util::trim_line_terminator", "Matcher::find_iter_at"], timeout=900),
    unit("c10_find_iter_second_line", ["C10", "C19", "C09"], PRINTER, "util::verif_kani",
         "find_iter_at_in_context on the second line of a buffer (look-behind context before the range)",
         ["util::find_iter_at_in_context"], timeout=900),
    unit("c10_find_iter_unterminated", ["C10", "C19", "C09"], PRINTER, "util::verif_kani",
         "find_iter_at_in_context on an UNTERMINATED last line: same matches as on its content (incl. an empty match at its end)",
         ["util::find_iter_at_in_context"], timeout=900),
    unit("c10_find_iter_unterminated_second", ["C10", "C19", "C09"], PRINTER, "util::verif_kani",
         "find_iter_at_in_context on an unterminated second line", ["util::find_iter_at_in_context"], timeout=900),
    unit("c10_summary_quiet_stats", ["C10"], PRINTER, "summary::verif_kani",
         "real searcher (slice, slow line path) + real SummarySink (Quiet, stats on, max_matches in {None,1,2} symbolic) on 'ax\\nby\\n' with a "
         "symbolic per-line span table: match_count / stats.matched_lines == reported lines, stats.matches == matches inside them "
         "(== what -o / JSON submatches enumerate), searches, searches_with_match, bytes_searched",
         ["SummarySink::matched", "SummarySink::begin", "SummarySink::finish", "SummarySink::should_quit", "util::find_iter_at_in_context",
          "Stats::add_*", "SliceByLine::run", "Core::match_by_line_slow"], timeout=1500, heavy=True, rules=printer_rules(), unwind=12,
         shape=SH.from_bytes("p_axby", b"ax\nby\n")),
    unit("c10_summary_quiet_stats_invert", ["C10"], PRINTER, "summary::verif_kani",
         "same with --invert-match: reported lines are the non-matching ones, stats.matches == 0",
         ["SummarySink::matched", "util::find_iter_at_in_context"], timeout=1500, heavy=True, rules=printer_rules(), unwind=12,
         shape=SH.from_bytes("p_axby", b"ax\nby\n")),
    unit("c10_summary_quiet_stats_unterminated", ["C10"], PRINTER, "summary::verif_kani",
         "same on 'ax\\n\\nc' (blank line, unterminated last line)",
         ["SummarySink::matched", "util::find_iter_at_in_context"], timeout=1500, heavy=True, rules=printer_rules(), unwind=12,
         shape=SH.from_bytes("p_ax_c", b"ax\n\nc")),
    unit("c14_replace_bytes", ["C14"], SEARCHER, "line_buffer::verif_kani",
         "replace_bytes on fully symbolic bytes/needle/replacement", ["line_buffer::replace_bytes"], timeout=600),
    unit("c12_file_name", ["C12", "C04"], GLOBSET, "pathutil::verif_kani",
         "pathutil::file_name on a fully symbolic <=6-byte path == last path component (None only for empty, `.`, `..`)",
         ["globset::pathutil::file_name"], timeout=600),
    unit("c12_file_name_ext", ["C12", "C04"], GLOBSET, "pathutil::verif_kani",
         "pathutil::file_name_ext on a fully symbolic <=6-byte name == suffix from the last dot",
         ["globset::pathutil::file_name_ext"], timeout=600),
    unit("c19_find_cap_ref_unbraced", ["C19"], MATCHER, "interpolate::verif_kani",
         "find_cap_ref on a fully symbolic <=5-byte buffer that is not a ${ reference agrees with the regex library's "
         "reference grammar ($name = longest [0-9A-Za-z_]+ run; integer names are group numbers)",
         ["interpolate::find_cap_ref", "interpolate::is_valid_cap_letter"], timeout=600),
    unit("c19_find_cap_ref_braced_plain", ["C19"], MATCHER, "interpolate::verif_kani",
         "find_cap_ref on symbolic ${...} buffers whose name bytes are in [0-9A-Za-z_}] agrees with the library",
         ["interpolate::find_cap_ref"], timeout=600),
    unit("c19_find_cap_ref_braced_any", ["C19"], MATCHER, "interpolate::verif_kani",
         "find_cap_ref on fully symbolic ${... buffers agrees with the library (anything up to the closing brace)",
         ["interpolate::find_cap_ref"], timeout=600),
    unit("c19_find_iter", ["C19", "C10"], MATCHER, "verif_kani",
         "Matcher::find_iter (default try_find_iter_at) over a symbolic span table on <=4 bytes yields exactly the regex "
         "library's successive non-overlapping matches (empty match right after a match skipped)",
         ["Matcher::try_find_iter_at", "Matcher::find_iter"], timeout=600),
    unit("c19_captures_iter", ["C19", "C10"], MATCHER, "verif_kani",
         "Matcher::captures_iter (default try_captures_iter_at, what replace_with_captures/Replacer::replace_all use) over "
         "a symbolic span table yields exactly the regex library's successive matches",
         ["Matcher::try_captures_iter_at", "Matcher::captures_iter"], timeout=600),
    unit("lines_locate", ["C03", "C13"], SEARCHER, "lines::verif_kani",
         "lines::locate on fully symbolic <=6 bytes, any terminator, any span: minimal covering line range",
         ["lines::locate"], interesting=("interior line located",)),
    unit("lines_count", ["C03"], SEARCHER, "lines::verif_kani",
         "lines::count == number of terminator bytes (fully symbolic <=6 bytes)",
         ["lines::count"], interesting=("two terminators counted",)),
    unit("lines_preceding", ["C03"], SEARCHER, "lines::verif_kani",
         "lines::preceding(bytes,t,c) == start of the line c lines before the last (fully symbolic <=6 bytes)",
         ["lines::preceding", "lines::preceding_by_pos"], interesting=("three lines, one back",)),
    unit("lines_linestep", ["C03"], SEARCHER, "lines::verif_kani",
         "LineStep partitions [s,e) into terminator-ended non-empty lines (fully symbolic <=6 bytes)",
         ["lines::LineStep::next"], interesting=("three lines stepped",)),
    unit("lines_without_terminator", ["C01", "C03"], SEARCHER, "lines::verif_kani",
         "without_terminator strips exactly the line's terminator (LF, NUL, CRLF incl. lone \\n)",
         ["lines::without_terminator"], interesting=("crlf stripped",)),
]


GLOBAL_UNWIND = 16  # only harness-side, concretely bounded loops rely on it


def shape_unwind(sh, extra=0):
    return GLOBAL_UNWIND


def nl_bucket(sh):
    return "nl<=2" if sh.nl <= 2 else ("nl=3" if sh.nl == 3 else "nl>=4")


def maxline(sh):
    return max([sh.lstart[i + 1] - sh.lstart[i] for i in range(sh.nl)] or [1])


def multi_rules(ctx):
    """multi-line strategy: a delivered match may span the whole input"""
    base = searcher_rules(ctx)

    def f(nl, ml, ln):
        d = base(nl, ml, ln)
        d[r"RecSink::same_bytes\.0"] = ln + 1
        d[r"^memchr::memchr\.0"] = ln + 1
        d[r"^memchr::memrchr\.0"] = ln + 1
        return d
    return f


def searcher_rules(ctx):
    """Per-loop unwind bounds for the searcher's own loops as a function of the
    shape class; CBMC's unwinding assertions stay on, so a bound that is too
    small is reported (inconclusive), never silently truncating."""
    def f(nl, ml, ln):
        return {
            r"memchr::memchr::count_raw\.0": ln + 1,
            r"^memchr::memchr\.0": ml + 1,
            r"^memchr::memrchr\.0": ml + 1,
            r"^memcmp\.0": 3,
            r"RecSink::same_bytes\.0": ml + 1,
            r"lines::preceding_by_pos\.0": ctx + 2,
            r"before_context_by_line\.0": ctx + 2,
            r"after_context_by_line\.0": ctx + 2,
            r"other_context_by_line\.0": nl + 1,
            r"match_by_line_slow\.0": nl + 1,
            r"SliceByLine.*::run\.0": 2,
        }
    return f


THOROUGH_SAMPLE = 10


class ShapeFamily:
    """generic harness fn instantiated per shape"""

    def __init__(self, fn, props, crate, module, genfile, desc, functions, quick_shapes=None,
                 thorough_shapes=None, timeout=300, unwind=shape_unwind, interesting=(),
                 shape_filter=None, rules=None, heavy=False):
        self.fn = fn
        self.props = props
        self.crate = crate
        self.module = module
        self.genfile = genfile
        self.desc = desc
        self.functions = functions
        self.quick_shapes = quick_shapes
        self.thorough_shapes = thorough_shapes
        self.timeout = timeout
        self.unwind = unwind
        self.interesting = interesting
        self.shape_filter = shape_filter
        self.rules = rules
        self.heavy = heavy

    def obligations(self, tier, seed=0):
        out = []
        if self.quick_shapes is None:
            qs = SH.quick_shapes()
        else:
            qs = [SH.by_name(n) for n in self.quick_shapes]
        shapes = [(s, "quick") for s in qs]
        if tier == "thorough":
            if self.thorough_shapes is None:
                # the complete pool (every shape of <=4 lines / <=8 bytes) is well over a hundred shapes
                # per family: a run takes THOROUGH_SAMPLE of them, chosen by VERIF_SEED, so that
                # different seeds cover different parts of the pool and one run stays in hours
                import random
                import zlib
                pool = [s for s in SH.all_shapes(max_lines=4, max_bytes=8) if not self.shape_filter or self.shape_filter(s)]
                seen = {(q.hay, q.term) for q in qs}
                pool = [s for s in pool if (s.hay, s.term) not in seen]
                rnd = random.Random(seed * 7919 + zlib.crc32(self.fn.encode()))
                rnd.shuffle(pool)
                ts = pool[:THOROUGH_SAMPLE]
            else:
                ts = [SH.by_name(n) for n in self.thorough_shapes]
            shapes += [(s, "thorough") for s in ts]
        for sh, t in shapes:
            if self.shape_filter and not self.shape_filter(sh):
                continue
            name = "%s__%s" % (self.fn, sh.name)
            out.append(Obl(name, self.props, self.crate, self.module + "::" + name, tier=t,
                           timeout=self.timeout, fn=self.fn, shape=sh, unwind=self.unwind(sh),
                           genfile=self.genfile, interesting=self.interesting,
                           desc=self.desc + " [shape %s = %r]" % (sh.name, sh.descr()),
                           functions=self.functions, rules=self.rules, bucket=nl_bucket(sh),
                           heavy=(self.heavy(sh) if callable(self.heavy) else self.heavy)))
        return out


class NulFamily(ShapeFamily):
    """harness fn instantiated per NUL-bearing shape (and its converted twin)"""

    def __init__(self, *a, two=False, skip=(), **kw):
        super().__init__(*a, **kw)
        self.two = two
        self.skip = skip

    def obligations(self, tier, seed=0):
        out = []
        for a, b in SH.nul_shapes():
            if a.name in self.skip:
                continue
            name = "%s__%s" % (self.fn, a.name)
            shp = (a, b) if self.two else a
            o = Obl(name, self.props, self.crate, self.module + "::" + name, tier="quick", timeout=self.timeout,
                    fn=self.fn, shape=a, unwind=self.unwind(a), genfile=self.genfile, interesting=(),
                    desc=self.desc + " [shape %s = %r]" % (a.name, a.descr()), functions=self.functions,
                    rules=self.rules, bucket="nul", heavy=self.heavy)
            o.gen_shape = shp
            out.append(o)
        return out


SLOW_E2E_FUNCS = ("Searcher::search_slice", "SliceByLine::run", "Core::match_by_line",
                  "Core::match_by_line_slow", "Core::before_context_by_line", "Core::sink_matched",
                  "Core::sink_before_context", "Core::sink_after_context", "Core::sink_other_context",
                  "Core::sink_break_context", "Core::count_lines", "lines::without_terminator",
                  "lines::preceding", "LineStep::next", "lines::count")

FAST_FUNCS = ("Core::match_by_line_fast", "Core::find_by_line_fast", "Core::match_by_line_fast_invert",
              "Core::is_line_by_line_fast", "lines::locate") + SLOW_E2E_FUNCS
READER_FUNCS = ("ReadByLine::run", "ReadByLine::fill", "Core::roll", "LineBuffer::fill", "LineBuffer::roll",
                "LineBuffer::ensure_capacity", "LineBuffer::consume", "LineBufferReader::*") + SLOW_E2E_FUNCS
MULTI_FUNCS = ("MultiLine::run", "MultiLine::sink", "MultiLine::sink_matched_inverted", "MultiLine::find",
               "MultiLine::advance", "MultiLine::sink_context", "MultiLine::sink_matched", "lines::locate",
               "Core::after_context_by_line", "Core::before_context_by_line", "Core::other_context_by_line",
               "Core::sink_matched", "Core::count_lines")
GEN = "searcher/shapes_gen.rs"
FAMILIES = [
    ShapeFamily("c03_slice_ctx", ["C03", "C01", "C09"], SEARCHER, CORE_MOD, GEN,
                "slow line path end-to-end (SliceByLine::run) == grep model; symbolic hit table, A,B in 0..=2, "
                "invert, line numbers; passthru off, stop-on-nonmatch off",
                SLOW_E2E_FUNCS, timeout=600, rules=searcher_rules(2)),
    ShapeFamily("c03_slice_stop", ["C03", "C01"], SEARCHER, CORE_MOD, GEN,
                "slow line path end-to-end == grep model with stop-on-nonmatch ON; symbolic hit table, "
                "A,B in 0..=1, invert, line numbers",
                SLOW_E2E_FUNCS, timeout=900, rules=searcher_rules(2),
                quick_shapes=["q_empty", "q_one", "q_one_unterm", "q_blank", "q_two", "q_blank_mid", "q_crlf_mix", "q_nul"], shape_filter=lambda sh: sh.nl <= 3),
    ShapeFamily("c03_slice_passthru", ["C03", "C01"], SEARCHER, CORE_MOD, GEN,
                "slow line path end-to-end == grep model with passthru ON; symbolic hit table, invert, "
                "line numbers, stop-on-nonmatch",
                SLOW_E2E_FUNCS, timeout=600, rules=searcher_rules(2),
                quick_shapes=["q_empty", "q_one_unterm", "q_blank", "q_two", "q_blank_mid", "q_blank_last", "q_crlf_blank", "q_nul", "q_four"]),
    ShapeFamily("c03_fast_confirmed", ["C03", "C01"], SEARCHER, CORE_MOD, GEN,
                "FAST line path end-to-end (match_by_line_fast, find_by_line_fast, fast_invert), matcher reports Confirmed "
                "offsets == grep model; all hit patterns x invert x (A,B) in {(0,0),(1,1),(2,0),(0,2)} enumerated in-harness "
                "(concrete per iteration so the scan position folds); line numbering symbolic",
                FAST_FUNCS, timeout=1200, rules=searcher_rules(2), unwind=lambda sh: 40, quick_shapes=["q_one_unterm", "q_two", "q_blank_mid", "q_crlf_mix", "q_blank_first", "q_nul"], shape_filter=lambda sh: sh.nl <= 3),
    ShapeFamily("c03_fast_candidate_all", ["C03", "C01"], SEARCHER, CORE_MOD, GEN,
                "fast line path, every line is a Candidate (maximal prefilter false positives, re-check on stripped line) == grep model",
                FAST_FUNCS, timeout=1200, rules=searcher_rules(2), unwind=lambda sh: 40, quick_shapes=["q_one_unterm", "q_two", "q_blank_mid", "q_crlf_mix", "q_blank_first", "q_nul"], shape_filter=lambda sh: sh.nl <= 3, heavy=lambda sh: sh.nl >= 3),
    ShapeFamily("c03_fast_stop", ["C03", "C01"], SEARCHER, CORE_MOD, GEN,
                "fast line path with stop-on-nonmatch (switch to the slow loop after the first match) == grep model",
                FAST_FUNCS, timeout=1200, rules=searcher_rules(2), unwind=lambda sh: 40, quick_shapes=["q_one_unterm", "q_two", "q_blank_mid", "q_crlf_mix", "q_blank_first", "q_nul"], shape_filter=lambda sh: sh.nl <= 3),
    ShapeFamily("c16_fast_refuse", ["C16"], SEARCHER, CORE_MOD, GEN,
                "fast line path: sink refuses at every call index k (enumerated): delivered == prefix + exactly one finish",
                FAST_FUNCS, timeout=1200, rules=searcher_rules(2), unwind=lambda sh: 40,
                quick_shapes=["q_two", "q_blank_mid"], thorough_shapes=["q_crlf_mix", "q_blank_first", "q_nul"], shape_filter=lambda sh: sh.nl <= 3),
    ShapeFamily("c16_fast_error", ["C16"], SEARCHER, CORE_MOD, GEN,
                "fast line path: sink fails at every call index k (enumerated): error returned, prefix, no finish",
                FAST_FUNCS, timeout=1200, rules=searcher_rules(2), unwind=lambda sh: 40,
                quick_shapes=["q_two"], thorough_shapes=["q_blank_mid", "q_crlf_mix"], shape_filter=lambda sh: sh.nl <= 3),
    ShapeFamily("c01_find_by_line_fast", ["C01", "C03"], SEARCHER, CORE_MOD, GEN,
                "Core::find_by_line_fast from a symbolic line-start position with fully symbolic hit/candidate/offset tables "
                "and symbolic reporting mode (Confirmed/Candidate): returns exactly the first matching line's range",
                ("Core::find_by_line_fast", "lines::locate", "lines::without_terminator"), timeout=900,
                # precondition of find_by_line_fast: is_line_by_line_fast(), which is false for NUL-terminated records
                rules=searcher_rules(2), shape_filter=lambda sh: sh.nl >= 2 and sh.term != SH.T_NUL),
    NulFamily("c14_slice_quit", ["C14"], SEARCHER, CORE_MOD, GEN,
              "slice strategy, quit detection: a NUL in the examined portion => begin, one binary notice at the first NUL, finish; "
              "no line delivered; symbolic hit table / contexts / invert / numbering",
              SLOW_E2E_FUNCS + ("Core::detect_binary", "SliceByLine::run"), timeout=900, rules=searcher_rules(2)),
    NulFamily("c14_slice_convert", ["C14"], SEARCHER, CORE_MOD, GEN,
              "slice strategy, convert detection: exactly one binary notice, before any line; finish reports the first NUL's offset",
              SLOW_E2E_FUNCS + ("Core::detect_binary",), timeout=900, rules=searcher_rules(2)),
    NulFamily("c14_reader_quit", ["C14"], SEARCHER, CORE_MOD, GEN,
              "reader strategy, quit detection: delivered is a PREFIX of the search of the input cut at the first NUL, no NUL "
              "reaches the sink, one binary notice at that offset, finish reports it; hit patterns x invert x (A,B) in "
              "{(0,0),(1,1)} x fragmentation (1,1) enumerated in-harness; line numbering symbolic",
              READER_FUNCS + ("ReadByLine::fill", "LineBuffer::fill"), timeout=1500, rules=searcher_rules(2),
              unwind=lambda sh: 40),
    NulFamily("c14_reader_quit_wide", ["C14"], SEARCHER, CORE_MOD, GEN,
              "reader strategy, quit detection: delivered is a PREFIX of the search of the input cut at the first NUL, no NUL "
              "reaches the sink, one binary notice at that offset, finish reports it; hit patterns x invert x (A,B) in "
              "{(0,0),(1,1)} x fragmentation (4,2) enumerated in-harness; line numbering symbolic",
              READER_FUNCS + ("ReadByLine::fill", "LineBuffer::fill"), timeout=1500, rules=searcher_rules(2),
              unwind=lambda sh: 40),
    NulFamily("c14_reader_convert", ["C14"], SEARCHER, CORE_MOD, GEN,
              "reader strategy, convert detection: delivered == search of the input with every NUL replaced by the terminator + "
              "one binary notice at the first NUL; hit patterns x (A,B) in {(0,0),(1,1)} enumerated, not inverted, fragmentation (1,1)",
              READER_FUNCS + ("line_buffer::replace_bytes",), timeout=1500, rules=searcher_rules(2), two=True, skip=("n_mid",),
              unwind=lambda sh: 40),
    NulFamily("c14_reader_convert_wide", ["C14"], SEARCHER, CORE_MOD, GEN,
              "reader strategy, convert detection: delivered == search of the input with every NUL replaced by the terminator + "
              "one binary notice at the first NUL; hit patterns x invert enumerated, (A,B)=(1,1), fragmentation (2,3)",
              READER_FUNCS + ("line_buffer::replace_bytes",), timeout=1500, rules=searcher_rules(2), two=True, skip=("n_mid",),
              unwind=lambda sh: 40),
    ShapeFamily("c02_reader_tiny", ["C02", "C09"], SEARCHER, CORE_MOD, GEN,
                "ReadByLine over LineBufferReader, capacity 1 / 1-byte reads (a roll and a grow at every byte) == grep model "
                "(== slice strategy); hit patterns x (A,B) in {(0,0),(1,1)} enumerated in-harness; line numbering symbolic",
                READER_FUNCS, timeout=1500, rules=searcher_rules(2), unwind=lambda sh: 40,
                quick_shapes=["q_empty", "q_one_unterm", "q_blank", "q_two", "q_blank_mid", "q_blank_first", "q_crlf_blank", "q_nul", "z_nl_in_record"],
                shape_filter=lambda sh: sh.nl <= 3 and len(sh.hay) <= 6),
    ShapeFamily("c02_reader_tiny_inv", ["C02"], SEARCHER, CORE_MOD, GEN,
                "ReadByLine over LineBufferReader, capacity 1 / 1-byte reads (a roll and a grow at every byte) == grep model "
                "(== slice strategy); INVERTED; hit patterns x (A,B) in {(0,0),(1,1)} enumerated in-harness; line numbering symbolic",
                READER_FUNCS, timeout=1500, rules=searcher_rules(2), unwind=lambda sh: 40,
                quick_shapes=["q_empty", "q_one_unterm", "q_blank", "q_two", "q_blank_mid", "q_blank_first", "q_crlf_blank", "q_nul", "z_nl_in_record"],
                shape_filter=lambda sh: sh.nl <= 3 and len(sh.hay) <= 6),
    ShapeFamily("c02_reader_wide", ["C02"], SEARCHER, CORE_MOD, GEN,
                "reader strategy, fragmentation (2,3), contexts (1,0),(0,1), stop-on-nonmatch off/on (incl. final byte count "
                "== slice strategy's) == grep model", READER_FUNCS, timeout=1500, rules=searcher_rules(2), unwind=lambda sh: 40,
                quick_shapes=["q_two", "q_blank_mid", "q_blank_last", "q_nul"], shape_filter=lambda sh: sh.nl <= 3 and len(sh.hay) <= 6),
    ShapeFamily("c02_reader_wide2", ["C02"], SEARCHER, CORE_MOD, GEN,
                "reader strategy, fragmentation (4,2), contexts (1,0),(0,1), stop-on-nonmatch off/on (incl. final byte count "
                "== slice strategy's) == grep model", READER_FUNCS, timeout=1500, rules=searcher_rules(2), unwind=lambda sh: 40,
                quick_shapes=["q_two", "q_blank_mid", "q_blank_last", "q_nul"], shape_filter=lambda sh: sh.nl <= 3 and len(sh.hay) <= 6),
    ShapeFamily("c02_reader_passthru", ["C02"], SEARCHER, CORE_MOD, GEN,
                "reader strategy with passthru (x invert x stop-on-nonmatch) == grep model",
                READER_FUNCS, timeout=1500, rules=searcher_rules(2), unwind=lambda sh: 40,
                quick_shapes=["q_two", "q_blank_mid"], shape_filter=lambda sh: sh.nl <= 3 and len(sh.hay) <= 6),
    ShapeFamily("c02_reader_reuse", ["C02", "C03"], SEARCHER, CORE_MOD, GEN,
                "one line buffer reused for two consecutive reader searches (as Searcher does per file): both runs == grep model "
                "(offsets and byte count start from zero again)",
                READER_FUNCS + ("LineBufferReader::new", "LineBuffer::clear"), timeout=1500, rules=searcher_rules(2),
                unwind=lambda sh: 40, quick_shapes=["q_two", "q_blank_mid"], shape_filter=lambda sh: sh.nl <= 3 and len(sh.hay) <= 6),
    ShapeFamily("c16_slice", ["C16"], SEARCHER, CORE_MOD, GEN,
                "slice strategy: sink refuses (stop) or fails at symbolic event index k: delivered == prefix of full "
                "stream (+ exactly one finish after stop, none after error); symbolic hit table and configuration (A,B<=1)",
                SLOW_E2E_FUNCS, heavy=True, timeout=900, rules=searcher_rules(2), quick_shapes=["q_one", "q_two"], thorough_shapes=["q_blank_mid", "q_crlf_mix", "q_blank"], shape_filter=lambda sh: sh.nl <= 3 and len(sh.hay) <= 6),
    ShapeFamily("c16_slice_before1", ["C16"], SEARCHER, CORE_MOD, GEN,
                "slice strategy, contexts fixed to (A,B)=(0,1) (a separator ahead of a before-context line needs 4 lines): sink refuses or "
                "fails at symbolic event index k, symbolic hit table: prefix property",
                SLOW_E2E_FUNCS, heavy=True, timeout=900, rules=searcher_rules(1), quick_shapes=["q_four"], shape_filter=lambda sh: sh.nl == 4),
    ShapeFamily("c16_slice_after1", ["C16"], SEARCHER, CORE_MOD, GEN,
                "slice strategy, contexts fixed to (A,B)=(1,0): sink refuses or fails at symbolic event index k, symbolic hit table: prefix property",
                SLOW_E2E_FUNCS, heavy=True, timeout=900, rules=searcher_rules(1), quick_shapes=["q_four"], shape_filter=lambda sh: sh.nl == 4),
    ShapeFamily("c16_reader_stop", ["C16"], SEARCHER, CORE_MOD, GEN,
                "reader strategy (capacity 1, 1-byte reads): sink refuses at every event index k: prefix + exactly one finish; hit pattern x "
                "(A,B) in {(0,0),(1,1)} x invert x k enumerated in-harness, line numbering symbolic",
                READER_FUNCS, timeout=1500, rules=searcher_rules(2), unwind=lambda sh: 40,
                quick_shapes=["q_one", "q_two", "q_blank"], shape_filter=lambda sh: sh.nl <= 2 and len(sh.hay) <= 4),
    ShapeFamily("c16_reader_error", ["C16"], SEARCHER, CORE_MOD, GEN,
                "reader strategy: sink fails at every event index k: error returned, prefix, no finish; enumerated as above",
                READER_FUNCS, timeout=1500, rules=searcher_rules(2), unwind=lambda sh: 40,
                quick_shapes=["q_one", "q_two"], shape_filter=lambda sh: sh.nl <= 2 and len(sh.hay) <= 4),
    ShapeFamily("c16_reader_ioerr", ["C16"], SEARCHER, CORE_MOD, GEN,
                "reader strategy: read() fails (Other and Interrupted) at every call index j: error returned, no finish, prefix; "
                "hit pattern x (A,B) in {(0,0),(1,1)} x j x kind enumerated in-harness",
                READER_FUNCS, timeout=1500, rules=searcher_rules(2), unwind=lambda sh: 40,
                quick_shapes=["q_one", "q_two"], shape_filter=lambda sh: sh.nl <= 2 and len(sh.hay) <= 4 and (sh.nl >= 2 or sh.hay[-1:] in (b"\n", b"\0"))),
    ShapeFamily("c13_multiline", ["C13"], SEARCHER, CORE_MOD, GEN,
                "MultiLine::run == lines covered by the successive matches of a span table (merged runs, contexts, invert, "
                "passthru, numbering); EVERY span table of the shape (<=3 bytes) / every table with <=2 match starts (4-5 bytes) "
                "x {no context, (A,B)=(1,1)} enumerated in-harness; line numbering symbolic",
                MULTI_FUNCS, heavy=lambda sh: len(sh.hay) >= 3, timeout=1500, rules=multi_rules(2), unwind=lambda sh: 800,
                quick_shapes=["q_one_unterm", "q_one", "q_blank", "m_two_unterm", "q_two"], thorough_shapes=["m_blank_mid"]),
    ShapeFamily("c13_multiline_inv", ["C13"], SEARCHER, CORE_MOD, GEN,
                "MultiLine::run == lines covered by the successive matches of a span table (merged runs, contexts, invert, "
                "passthru, numbering); EVERY span table of the shape (<=3 bytes) / every table with <=2 match starts (4-5 bytes) "
                "INVERTED, x {no context, (A,B)=(1,1)} enumerated in-harness; line numbering symbolic",
                MULTI_FUNCS, heavy=lambda sh: len(sh.hay) >= 3, timeout=1500, rules=multi_rules(2), unwind=lambda sh: 800,
                quick_shapes=["q_one_unterm", "q_one", "q_blank", "m_two_unterm"], thorough_shapes=["q_two"]),
    ShapeFamily("c13_multiline_passthru", ["C13"], SEARCHER, CORE_MOD, GEN,
                "MultiLine::run == lines covered by the successive matches of a span table (merged runs, contexts, invert, "
                "passthru, numbering); EVERY span table of the shape (<=3 bytes) / every table with <=2 match starts (4-5 bytes) "
                "with passthru, enumerated in-harness; line numbering symbolic",
                MULTI_FUNCS, heavy=lambda sh: len(sh.hay) >= 3, timeout=1500, rules=multi_rules(2), unwind=lambda sh: 800,
                quick_shapes=["q_one_unterm", "q_one", "q_blank", "m_two_unterm"], thorough_shapes=["q_two", "m_blank_mid"]),
    ShapeFamily("c13_multiline_lookbehind", ["C13"], SEARCHER, CORE_MOD, GEN,
                "MultiLine::run with look-behind patterns: besides the span table E, every alternative answer E0[p] at a "
                "resumption point taken as start-of-haystack is enumerated (tables with one match start; plain and inverted+context); the result must follow the whole-input table E",
                MULTI_FUNCS, heavy=lambda sh: len(sh.hay) >= 3, timeout=1500, rules=multi_rules(2), unwind=lambda sh: 800,
                quick_shapes=["q_one_unterm", "q_one", "m_two_unterm"], thorough_shapes=[]),
    ShapeFamily("c13_reader_reuse", ["C13", "C02"], SEARCHER, CORE_MOD, GEN,
                "Searcher::search_reader in multi-line mode (whole input read into the Searcher's reused buffer, 2-byte reads) run TWICE on one "
                "Searcher: both runs == model (every span table with <=1 match start enumerated; numbering symbolic)",
                MULTI_FUNCS + ("Searcher::search_reader", "Searcher::fill_multi_line_buffer_from_reader"), heavy=lambda sh: len(sh.hay) >= 4, timeout=1500,
                rules=multi_rules(2), unwind=lambda sh: 800, quick_shapes=["q_one", "m_two_unterm"], thorough_shapes=["q_two"]),
    ShapeFamily("c16_multiline_refuse", ["C16"], SEARCHER, CORE_MOD, GEN,
                "multi-line strategy: sink refuses at every call index k (enumerated) for every span table (<=2 bytes) / every table with one match start, x {contexts (1,1), inverted, passthru}: prefix + exactly one finish",
                MULTI_FUNCS, heavy=True, timeout=1500, rules=multi_rules(2), unwind=lambda sh: 800,
                quick_shapes=["m_two_unterm", "q_two"], thorough_shapes=["q_one"]),
    ShapeFamily("c16_multiline_error", ["C16"], SEARCHER, CORE_MOD, GEN,
                "multi-line strategy: sink fails at every call index k (enumerated): error returned, prefix, no finish",
                MULTI_FUNCS, heavy=True, timeout=1500, rules=multi_rules(2), unwind=lambda sh: 800,
                quick_shapes=["m_two_unterm"], thorough_shapes=["q_one", "q_two"]),
]


# Quick tier only: a family shared by several properties runs, for a property
# that is not its main subject, on the listed shapes only (None = family not in
# that property's quick tier).  The thorough tier runs everything.
QUICK_ONLY = {
    "C01": {
        "c03_slice_ctx": {"q_one", "q_one_unterm", "q_blank", "q_two", "q_blank_mid", "q_crlf_mix", "q_crlf_blank"},
        "c03_slice_stop": None,
        "c03_slice_passthru": None,
        "c03_fast_confirmed": {"q_two", "q_crlf_mix"},
        "c03_fast_candidate_all": {"q_two", "q_blank_mid", "q_crlf_mix"},
        "c03_fast_stop": None,
    },
    "C09": {
        "c03_slice_ctx": {"q_two", "q_crlf_mix", "q_blank_mid", "q_one_unterm"},
        "c02_reader_tiny": {"q_two", "q_crlf_blank"},
    },
    "C03": {
        "c01_find_by_line_fast": {"q_two", "q_blank_mid", "q_crlf_mix"},
        # (NUL-terminated shapes never take the fast line path: is_line_by_line_fast() is false for them)
        "c03_fast_confirmed": {"q_two", "q_blank_mid", "q_crlf_mix"},
        "c03_fast_candidate_all": {"q_two", "q_blank_mid", "q_crlf_mix"},
        "c03_fast_stop": {"q_two", "q_blank_mid"},
        "c03_slice_stop": {"q_empty", "q_one", "q_one_unterm", "q_blank", "q_two", "q_blank_mid", "q_crlf_mix"},
        "c03_slice_ctx": {"q_empty", "q_one", "q_one_unterm", "q_blank", "q_two", "q_blank_mid", "q_blank_first", "q_blank_last", "q_crlf_mix", "q_crlf_blank", "q_nul", "q_four"},
        "c03_slice_passthru": {"q_empty", "q_one_unterm", "q_blank", "q_two", "q_blank_mid", "q_crlf_blank", "q_nul"},
    },
}


def obligations(prop, tier, seed):
    out = []
    for u in UNITS:
        if prop in u.props and (u.tier == "quick" or tier == "thorough"):
            out.append(u)
    for f in FAMILIES:
        if prop in f.props:
            obs = f.obligations(tier, seed)
            lim = QUICK_ONLY.get(prop, {})
            if tier == "quick" and f.fn in lim:
                keep = lim[f.fn]
                obs = [] if keep is None else [o for o in obs if o.shape.name in keep]
            out.extend(obs)
    for h in H_OBLS:
        if prop in h.props:
            out.append(h)
    return out


# ----------------------------------------------------------------------------
# Engine K runner


def scratch_edits(sc, crates):
    """Scratch-only edits (never in /repo): extra dependencies that harnesses
    of a crate need (the oracle library for differential harnesses)."""
    if True:  # grep-matcher is a dependency of every other crate: its harness file always compiles
        ct = os.path.join(sc.repo, "crates", "matcher", "Cargo.toml")
        s = open(ct).read()
        if "regex-automata" not in s:
            s = s.replace("[dependencies]\n", "[dependencies]\nregex-automata = { version = \"=0.4.7\", default-features = false, features = [\"std\", \"syntax\", \"meta\", \"nfa\"] }\n", 1)
            open(ct, "w").write(s)


def run_kani(group, ctx):
    results = []
    by_crate = {}
    for o in group:
        by_crate.setdefault(o.crate, []).append(o)
    with K.Scratch("k" + ctx["prop"]) as sc:
        sc.patch_memchr(extra_toml=EXTRA_TOML)
        scratch_edits(sc, set(by_crate))
        # generated shape instantiations, per gen file, for ALL crates up front
        gens = {}
        for o in group:
            if o.genfile:
                gens.setdefault(o.genfile, []).append((getattr(o, "gen_shape", o.shape), o.fn, o.unwind))
        for gf in GENFILES:
            sc.write_gen(gf, SH.gen_file(gens.get(gf, [])))
        groups = {}
        for crate, obls in by_crate.items():
            for o in obls:
                groups.setdefault((crate, o.bucket if o.rules else "", bool(getattr(o, "heavy", False))), []).append(o)
        # Two lanes run side by side, each with its own cargo target directory
        # (concurrent cargo-kani invocations cannot share one): lane L takes the
        # ordinary groups (<= 6 GB per CBMC), lane H the heavy ones (<= 13 GB,
        # few at a time).  Within a lane groups run one after the other.
        def prepare(key, obls):
            crate, bucket, heavy = key
            # biggest shapes first so the tail of the schedule is short
            obls = sorted(obls, key=lambda o: -(len(o.shape.hay) if o.shape else 0))
            tmo = max(o.timeout for o in obls)
            rules = None
            probes = None
            if any(o.rules for o in obls):
                nl = max(o.shape.nl for o in obls if o.shape)
                ml = max(maxline(o.shape) for o in obls if o.shape)
                ln = max(len(o.shape.hay) for o in obls if o.shape)
                merged = {}
                for o in obls:
                    if o.rules:
                        for rx, b in o.rules(nl, ml, ln).items():
                            merged[rx] = max(merged.get(rx, 0), b)
                rules = sorted(merged.items())
                seen_fn = {}
                for o in obls:
                    seen_fn.setdefault(o.fn, o.harness)
                probes = list(seen_fn.values())
            return crate, heavy, obls, tmo, rules, probes

        lanes = {False: [], True: []}
        for key, obls in sorted(groups.items()):
            lanes[key[2]].append(prepare(key, obls))
        both = bool(lanes[False]) and bool(lanes[True])
        J = ctx["jobs"]
        n_heavy = sum(len(g[2]) for g in lanes[True])
        h_jobs = min(5, J, max(1, n_heavy))
        lane_jobs = {False: (max(2, J - h_jobs) if both else J), True: h_jobs}
        done = []
        stop_guard = threading.Event()

        def mem_guard():
            # no swap on this machine: if available memory falls under 4 GB, the
            # largest CBMC of THIS run is killed (its obligation becomes
            # inconclusive -- never a pass) rather than letting the kernel pick
            while not stop_guard.wait(3.0):
                try:
                    avail = 0
                    for ln in open("/proc/meminfo"):
                        if ln.startswith("MemAvailable:"):
                            avail = int(ln.split()[1])
                    if avail and avail < 4 * 1024 * 1024:
                        best = (0, None)
                        for pid in os.listdir("/proc"):
                            if not pid.isdigit():
                                continue
                            try:
                                cl = open("/proc/%s/cmdline" % pid, "rb").read()
                                if b"cbmc" not in cl.split(b"\0")[0] or sc.root.encode() not in cl:
                                    continue
                                rss = int(open("/proc/%s/statm" % pid).read().split()[1])
                                if rss > best[0]:
                                    best = (rss, int(pid))
                            except Exception:
                                continue
                        if best[1]:
                            K.log("memory guard: killing cbmc pid %d (rss %d MB)" % (best[1], best[0] * 4 // 1024))
                            os.kill(best[1], 9)
                            time.sleep(5)
                except Exception:
                    pass

        def run_lane(heavy):
            target = os.path.join(sc.root, "target-H" if heavy else "target")
            for crate, hv, obls, tmo, rules, probes in lanes[heavy]:
                meta = {}
                res = sc.run(crate, [o.harness for o in obls], jobs=lane_jobs[heavy], harness_timeout=tmo,
                             unwind_rules=rules, probes=probes, mem_gb=(13 if heavy else 6), target=target, meta=meta)
                done.append((crate, obls, res, list(meta.get("cbmc_args", [])), list(meta.get("unwindset", []))))

        th = [threading.Thread(target=run_lane, args=(h,)) for h in (False, True) if lanes[h]]
        g = threading.Thread(target=mem_guard, daemon=True)
        g.start()
        for t in th:
            t.start()
        for t in th:
            t.join()
        stop_guard.set()
        # results and (sequential) playbacks
        n_reproduced = 0
        for crate, obls, res, cbmc_args, unwindset_used in done:
            for o in obls:
                hr = res[o.harness]
                r = hr.to_json()
                r["name"] = o.name
                r["fn"] = o.fn
                r["engine"] = "kani"
                r["desc"] = o.desc
                r["shape"] = o.shape.descr() if o.shape else None
                r["unwind"] = o.unwind
                r["unwindset"] = ["%s:%d" % u for u in unwindset_used]
                reach = hr.covers.get("reach-end")
                if hr.status == K.OK and reach != "SATISFIED":
                    r["status"] = K.INCONCLUSIVE
                    r["reason"] = "vacuity guard: reach-end cover is %s" % reach
                r["nontrivial"] = bool(
                    hr.status == K.OK and reach == "SATISFIED"
                    and all(hr.covers.get(c) == "SATISFIED" for c in o.interesting))
                r["failed_checks"] = hr.failed[:8]
                if hr.status == K.FAIL and F.match(F.load(), ctx["prop"], r) is not None:
                    K.log("FAILED (matches a known finding, no replay needed)", o.name)
                elif hr.status == K.FAIL and n_reproduced >= 3:
                    # each replay costs minutes; three natively reproduced
                    # violations decide the run (exit 1), the rest is listed unreplayed
                    K.log("FAILED", o.name, hr.failed[:3], "(not replayed: 3 violations of this run already reproduced)")
                    r["reproduced"] = None
                    r["reason"] = "assertion(s) failed; not replayed (replay cap of 3 per run reached)"
                elif hr.status == K.FAIL:
                    K.log("FAILED", o.name, hr.failed[:3], "-> concrete playback")
                    pb = sc.playback(crate, o.harness, harness_timeout=max(600, 2 * o.timeout),
                                     cbmc_args=cbmc_args)
                    r["playback"] = pb
                    r["reproduced"] = pb.get("reproduced")
                    if pb.get("reproduced") is True:
                        n_reproduced += 1
                results.append(r)
    return results


GENFILES = ["searcher/shapes_gen.rs"]
EXTRA_TOML = ""

# ----------------------------------------------------------------------------
# Engine H runner (rgsmt)


class HObl:
    engine = "H"

    def __init__(self, name, props, mode, kinds, desc, functions, timeout=3000):
        self.name = name
        self.props = props
        self.mode = mode
        self.kinds = kinds
        self.desc = desc
        self.functions = functions
        self.timeout = timeout
        self.fn = name
        self.shape = None


SMT_TARGET = os.path.join(K.CACHE, "smt-target")


def build_rgsmt(sc):
    import subprocess
    d = os.path.join(sc.root, "smt")
    os.makedirs(d, exist_ok=True)
    tmpl = open(os.path.join(K.VERIF, "smt", "Cargo.toml.in")).read()
    open(os.path.join(d, "Cargo.toml"), "w").write(tmpl.replace("@REPO@", sc.repo))
    import shutil
    shutil.copy(os.path.join(sc.repo, "Cargo.lock"), os.path.join(d, "Cargo.lock"))
    if not os.path.exists(os.path.join(d, "src")):
        shutil.copytree(os.path.join(K.VERIF, "smt", "src"), os.path.join(d, "src"))
    env = sc.env()
    # registry dependencies are cached across runs; the path dependencies
    # (ripgrep's crates in the fresh scratch copy) are rebuilt every run
    env["CARGO_TARGET_DIR"] = SMT_TARGET
    p = subprocess.run(["cargo", "build", "--offline"], cwd=d, env=env, stdout=subprocess.PIPE,
                       stderr=subprocess.STDOUT, text=True)
    if p.returncode != 0:
        return None, p.stdout[-3000:]
    exe = os.path.join(sc.root, "rgsmt")
    shutil.copy(os.path.join(SMT_TARGET, "debug", "rgsmt"), exe)
    return exe, ""


def run_smt(group, ctx):
    import json
    import subprocess
    results = []
    with K.Scratch("h" + ctx["prop"]) as sc:
        exe, err = build_rgsmt(sc)
        if exe is None:
            return [{"name": o.name, "fn": o.name, "status": K.INCONCLUSIVE, "engine": "rgsmt",
                     "reason": "rgsmt does not build against the tree: " + err, "desc": o.desc} for o in group]
        for o in group:
            nsh = 12  # z3 processes are light (<= 300 MB each)
            procs = []
            for i in range(nsh):
                out = os.path.join(sc.root, "%s.%d.json" % (o.name, i))
                cmd = ["timeout", "-k", "10", str(o.timeout), exe, o.mode, "--tier", ctx["tier"], "--seed", str(ctx["seed"]),
                       "--out", out, "--repo", sc.repo, "--shard", "%d/%d" % (i, nsh), "--kinds", ",".join(o.kinds)]
                procs.append((out, subprocess.Popen(cmd, stdout=subprocess.DEVNULL, stderr=subprocess.PIPE, text=True)))
            merged = {"counts": {}, "results": [], "programs": 0, "queries": 0, "z3_time_ms": 0,
                      "crosschecked_cvc5": 0, "encoder_validation_runs": 0, "accepted": 0, "rejected": 0,
                      "too_big": 0, "ascii_only_programs": 0, "L": None}
            bad = []
            for out, pr in procs:
                _o, e = pr.communicate()
                if pr.returncode != 0 or not os.path.exists(out):
                    bad.append("shard %s exit %s %s" % (out, pr.returncode, (e or "")[-300:]))
                    continue
                d = json.load(open(out))
                for k, v in d["counts"].items():
                    merged["counts"][k] = merged["counts"].get(k, 0) + v
                merged["results"] += d["results"]
                for k in ("programs", "queries", "z3_time_ms", "crosschecked_cvc5", "encoder_validation_runs",
                          "accepted", "rejected", "too_big", "ascii_only_programs"):
                    merged[k] += d.get(k, 0)
                merged["L"] = d["L"]
            stats = {k: merged[k] for k in merged if k not in ("results", "counts")}
            if bad:
                results.append({"name": o.name + ":shards", "fn": o.name, "status": K.INCONCLUSIVE, "engine": "rgsmt",
                                "reason": "; ".join(bad)[:1500], "desc": o.desc})
            for kind in o.kinds:
                n_ok = merged["counts"].get(kind + ":discharged", 0)
                samples = [r for r in merged["results"] if r["kind"] == kind and r["status"] == "discharged"][:3]
                results.append({"name": "%s:%s" % (o.name, kind), "fn": kind, "status": K.OK if n_ok else K.INCONCLUSIVE,
                                "reason": "%d programs discharged" % n_ok if n_ok else "no program produced this obligation",
                                "count": n_ok, "nontrivial": merged["counts"].get(kind + ":nontrivial", 0) > 0,
                                "nontrivial_count": merged["counts"].get(kind + ":nontrivial", 0), "engine": "rgsmt",
                                "desc": o.desc, "kind": kind, "samples": samples, "stats": stats,
                                "solver_s": merged["z3_time_ms"] / 1000.0 / max(1, len(o.kinds))})
            for r in merged["results"]:
                if r["status"] == "discharged" or r["kind"] not in o.kinds + ["encoder-validation"]:
                    continue
                st = K.FAIL if r["status"] == "failed" else K.INCONCLUSIVE
                results.append({"name": "%s:%s:%s" % (o.name, r["kind"], r["program"]), "fn": r["kind"], "status": st,
                                "reason": r["detail"], "failed_checks": [(r["kind"] + ": " + r["detail"][:200], r["program"])],
                                "program": r["program"], "witness": r["witness"], "reproduced": st == K.FAIL,
                                "engine": "rgsmt", "desc": o.desc, "kind": r["kind"], "stats": stats})
    return results


REGEX_FUNCS = ("grep_regex::RegexMatcherBuilder::build_many", "config::ConfiguredHIR::new", "strip::strip_from_match",
               "ConfiguredHIR::into_word", "ConfiguredHIR::into_whole_line", "ConfiguredHIR::line_terminator",
               "non_matching::non_matching_bytes", "literal::InnerLiterals::new/one_regex", "literal::Extractor::*",
               "ast::AstAnalysis", "RegexMatcher::find_candidate_line")

H_OBLS = [
    HObl("c11_regex", ["C11"], "regex", ["H-TERM", "H-NMB", "H-PREFILTER", "H-EXTRACT"],
         "per accepted (pattern, options): for ALL byte strings up to L: no match contains the terminator (H-TERM); "
         "declared non-matching bytes occur in no match (H-NMB); the fast candidate-line regex (H-PREFILTER) and the "
         "extractor's literals (H-EXTRACT) miss no terminator-free line that matches", REGEX_FUNCS),
    HObl("c12_glob", ["C12"], "glob", ["G-STRAT", "G-MEAN", "G-SET"],
         "per accepted (glob, options): for ALL paths up to L bytes the strategy a glob set would use means the same as the "
         "glob's regex (G-STRAT); globs over the simple token subset mean what the documented syntax says (G-MEAN); "
         "GlobSet::matches equals the member globs' individual verdicts on one solver-chosen path per satisfiable verdict "
         "combination (G-SET)",
         ("globset::glob::MatchStrategy::new", "Glob::literal/basename_literal/ext/prefix/suffix/required_ext",
          "Tokens::to_regex_with", "glob::Parser::*", "GlobSet::new", "GlobSet::matches_candidate_into", "*Strategy::matches_into")),
    HObl("c04_ignore", ["C04"], "ignore", ["I-LINE", "I-FILE"],
         "per ignore line: the glob ripgrep compiles for it means, for ALL well-formed relative paths up to L bytes over the path "
         "alphabet, what gitignore(5) says (I-LINE; reference compiled from the line text; witnesses replayed on the real Gitignore "
         "and on `git check-ignore`); two-line files: last match wins / negation / directory-only on one solver-chosen path per "
         "satisfiable verdict combination x is_dir, executed on ripgrep and on git (I-FILE)",
         ("ignore::gitignore::GitignoreBuilder::add_line", "Gitignore::matched", "Gitignore::matched_stripped", "Gitignore::strip",
          "globset::GlobBuilder::build", "Tokens::to_regex_with")),
    HObl("c01_regex", ["C01"], "regex", ["H-OPTS", "H-LOC", "H-PREFILTER"],
         "per accepted (pattern, options): for ALL lines up to L the compiled pattern means what -i/-S/-w/-x/-F/-e say "
         "(H-OPTS, reference built from the raw pattern); its matches in a buffer are exactly the matches of the stripped "
         "lines (H-LOC, what the fast line path relies on); prefilter drops no line (H-PREFILTER)", REGEX_FUNCS),
]

RUNNERS = {"K": run_kani, "H": run_smt}


# ----------------------------------------------------------------------------
# evidence

def _levels():
    """prop -> level, read from MANIFEST.json so that the evidence is always a record for the level claimed there"""
    import json
    lv = {"C11": "other", "C12": "other", "C04": "other", "C09": "other", "C16": "fault_enumeration"}
    try:
        m = json.load(open(os.path.join(K.VERIF, "MANIFEST.json")))
        for c in m.get("checks", []):
            lv[c["property_id"]] = c["level_claimed"]["category"]
    except Exception:
        pass
    return lv


LEVEL = _levels()  # default model_checking


def evidence(prop, tier, seed, obls, results, summ):
    fns = sorted({f for o in obls for f in o.functions})
    samples = []
    for r in results:
        if r.get("nontrivial") and len(samples) < 4:
            samples.append({"obligation": r["name"], "what": r["desc"], "covers": r.get("covers"),
                            "symex_s": r.get("symex_s"), "solver_s": r.get("solver_s")})
    if not samples:
        samples = [{"obligation": r["name"], "status": r["status"]} for r in results[:3]]
    cov = {
        "evaluations": sum(r.get("count", 1) for r in results),
        "distinct_nontrivial": summ["nontrivial"],
        "rule": "one evaluation = one solver-decided obligation (a Kani harness, per shape where the harness is "
                "shape-generic; or one SMT query). Non-trivial = discharged AND its reach-end cover is SATISFIED "
                "(assumptions are satisfiable and the final assertion is reached) AND every 'interesting' cover "
                "registered for it (e.g. a line was delivered, a window merged) is SATISFIED. Kani obligations are "
                "distinct by (harness function, shape). An SMT obligation (kind, pattern, options) is non-trivial if it "
                "was discharged AND the compiled pattern matches at least one haystack within the bound (witnessed "
                "concretely or by a sat query), i.e. the universally quantified claim is not vacuous.",
        "samples": samples,
        "obligations": sum(r.get("count", 1) for r in results),
        "discharged": summ["discharged"],
        "inconclusive": summ["inconclusive"],
        "known_findings_hit": summ["known"],
        "functions_encoded": fns,
        "engine": "Kani 0.68.0 / CBMC 6.11.0 (CaDiCaL) over the crate's MIR compiled from a scratch copy of /repo's working tree",
        "bounds": {
            "shapes": sorted({r["shape"] for r in results if r.get("shape") is not None}),
            "unit_lemma_bytes": 6,
            "context_sizes": "A,B in 0..=2",
            "unwind": "per-loop --unwindset bounds derived from the shape class (lines, longest line, bytes, "
                      "context size), discovered loop ids regenerated each run; global bound 16 for the rest; "
                      "unwinding assertions ON (an insufficient bound is reported, never silently truncating)",
            "unwindset_sample": next((r.get("unwindset") for r in results if r.get("unwindset")), []),
            "outside": "inputs longer than the listed shapes / 6 symbolic bytes; memchr's SIMD kernels (replaced by loop model)",
        },
        "stubs": ["memchr crate replaced by loop model (.cache/memchr-kani, generated from registry memchr-2.7.4)"],
        "symex_time_s": round(sum(r.get("symex_s") or 0 for r in results), 2),
        "solver_time_s": round(sum(r.get("solver_s") or 0 for r in results), 2),
        "per_obligation": [{k: r.get(k) for k in ("name", "status", "symex_s", "solver_s", "wall_s", "checks", "reason", "playback")}
                           for r in results],
        "exhaustive": False,
        "filtered_run": summ["filtered"],
        "explanation": "Solver-based bounded checking of the real code. Engine K: Kani/CBMC over the crate's compiled MIR "
                       "(symbolic inputs, assertions decided by SAT for every value inside the stated bounds). Engine H: the "
                       "real ripgrep front end is run on each enumerated program, the HIR it produced is encoded as a bounded "
                       "NFA run in SMT-LIB2 and z3 decides the obligation for ALL byte strings up to L (unsat = holds; sat = "
                       "witness replayed natively before it is reported); 1 query in 50 is re-asked of cvc5; the encoder's "
                       "NFA is validated against regex-automata on every program.",
        "smt_stats": next((r.get("stats") for r in results if r.get("stats")), None),
        "smt_samples": [s for r in results for s in (r.get("samples") or [])][:6],
    }
    return {
        "property_id": prop,
        "tier": tier,
        "seed": seed,
        "level": LEVEL.get(prop, "model_checking"),
        "coverage": cov,
        "assumptions": [
            "memchr/memrchr/memchr_iter().count() behave as their documented contract (loop model)",
            "harness matchers are members of the table family (sound for line-local matchers; RegexMatcher's line-locality is C11/C01 obligation H-LOC)",
            "bounded: the verdict covers every symbolic value inside the stated bounds and nothing outside",
        ],
        "wall_s": round(summ["wall_s"], 1),
        "violations": summ["violations"],
    }


# ----------------------------------------------------------------------------
# Engine M runner (C06: MIR decision skeletons)


class MObl:
    engine = "M"

    def __init__(self):
        self.name = "c06_skip_decision"
        self.props = ["C06"]
        self.fn = self.name
        self.shape = None
        self.desc = ("Walk::skip_entry (serial) and Worker::generate_work (parallel) decision skeletons extracted from the nightly "
                     "MIR dump: for every assignment of the shared Boolean atoms (ignored, is_stdout, size limit set, is_dir, over "
                     "size, filter set, filter accepts, follow_links, is_symlink) the two walkers agree on whether the entry is "
                     "handed on, and each equals the documented conjunction")
        self.functions = ("ignore::walk::Walk::skip_entry", "ignore::walk::Worker::generate_work")


def z3_cli(text, timeout_s=60):
    import subprocess
    p = subprocess.run(["z3", "-in", "-T:%d" % timeout_s], input=text, stdout=subprocess.PIPE, stderr=subprocess.PIPE, text=True)
    out = p.stdout
    first = out.strip().splitlines()[0] if out.strip() else ""
    if first == "unsat":
        return "unsat", out  # the (get-model) that follows necessarily errors
    if "(error" in out:
        return "error", out
    return first, out


def run_mir(group, ctx):
    import json
    import subprocess
    import time
    from . import mir as M
    o = group[0]
    res = []
    t0 = time.time()

    def mk(name, status, reason, **kw):
        d = {"name": name, "fn": name, "status": status, "reason": reason, "engine": "mir+z3", "desc": o.desc}
        d.update(kw)
        return d

    with K.Scratch("m" + ctx["prop"]) as sc:
        try:
            mir = M.dump_mir(sc.repo, os.path.join(sc.root, "mir-target"))
            n1, b1 = M.function_body(mir, r"::skip_entry")
            n2, b2 = M.function_body(mir, r"::generate_work")
            p1 = M.paths_of(M.parse_blocks(b1), {})
            p2 = M.paths_of(M.parse_blocks(b2), {"_5": ("param", "readdir")}, handed_on_call=r"walk::Worker::<'_>::send$",
                            versioned={"ignored": (r"DirEntryRaw::from_path$", "ignored_resolved", "ignored_link")})
        except M.Inconclusive as e:
            return [mk("c06_skip_decision", K.INCONCLUSIVE, "encoding could not be regenerated: %s" % e)]
        atoms = M.atoms_of(p1, p2)
        # `ignored` (serial walker, documented conjunction) is the ignore verdict on the entry the
        # walker works with: walkdir hands the serial walker the RESOLVED entry when links are followed;
        # the parallel walker re-stats a followed link itself (DirEntryRaw::from_path) and must ask the
        # ignore rules AFTERWARDS.  Ignore rules see the path and is_dir only, so for a non-directory
        # both verdicts coincide.
        for a in ("ignored_resolved", "ignored_link", "follow_links", "is_symlink"):
            if a not in atoms:
                atoms.append(a)
        atoms = sorted(a for a in atoms if a != "ignored")
        decl = "".join("(declare-const %s Bool)\n" % a for a in atoms)
        decl += "(define-fun ignored () Bool (ite (and follow_links is_symlink) ignored_resolved ignored_link))\n"
        decl += "(assert (=> (not (and is_symlink is_dir)) (= ignored_resolved ignored_link)))\n"
        # scope: entries below the root, no I/O errors
        scope = "".join("(assert (not %s))\n" % a for a in atoms if a.endswith("_err") or a == "depth_is_0")
        s_on, p_on = M.formula(p1, "on"), M.formula(p2, "on")
        doc = ("(and (not ignored) (not (and stdout_known is_stdout)) (not (and size_limit_set (not is_dir) over_size)) "
               "(not (and filter_set (not filter_accepts))))")
        queries = [
            ("c06_serial_eq_parallel", "(assert (xor %s %s))" % (s_on, p_on),
             "serial and parallel walker hand on the same entries"),
            ("c06_serial_is_documented", "(assert (xor %s %s))" % (s_on, doc),
             "serial walker hands an entry on iff it is not ignored, not stdout, within the size limit and accepted by the filter"),
            ("c06_parallel_is_documented", "(assert (xor %s %s))" % (p_on, doc),
             "parallel walker hands an entry on iff the documented conjunction holds"),
        ]
        for need in ("ignored_link", "ignored_resolved", "stdout_known", "is_stdout", "size_limit_set", "is_dir", "over_size", "filter_set", "filter_accepts"):
            if need not in atoms:
                return [mk("c06_skip_decision", K.INCONCLUSIVE, "expected decision atom `%s` not found in the MIR skeleton" % need)]
        exe = None
        for qname, body, what in queries:
            # prefer a witness the native replay can stage (no stdout handle, no symlink following)
            pref = "(assert (not stdout_known))\n"
            text = "(set-logic ALL)\n" + decl + scope + pref + body + "\n(check-sat)\n(get-model)\n"
            tq = time.time()
            ans, out = z3_cli(text)
            if ans == "unsat":
                text = "(set-logic ALL)\n" + decl + scope + body + "\n(check-sat)\n(get-model)\n"
                ans, out = z3_cli(text)
            dt = time.time() - tq
            if ans == "unsat":
                res.append(mk(qname, K.OK, "unsat: holds for every assignment of %d atoms" % len(atoms), nontrivial=True,
                              solver_s=dt, paths={"serial": len(p1), "parallel": len(p2)}, atoms=atoms))
                continue
            if ans != "sat":
                res.append(mk(qname, K.INCONCLUSIVE, "z3: " + out[:300]))
                continue
            model = dict(re_findall_model(out))
            asg = {a: model.get(a, "false") == "true" for a in atoms}
            asg["ignored"] = asg["ignored_resolved"] if (asg["follow_links"] and asg["is_symlink"]) else asg["ignored_link"]
            # replay natively on a real tree through both walkers
            if exe is None:
                exe, err = build_rgsmt(sc)
            rep = None
            detail = "witness %s" % json.dumps({k: v for k, v in asg.items() if not k.endswith("_err")}, sort_keys=True)
            if exe and not asg.get("stdout_known"):
                size = "none" if not asg["size_limit_set"] else ("over" if asg["over_size"] else "under")
                flt = "none" if not asg["filter_set"] else ("accept" if asg["filter_accepts"] else "reject")
                pr = subprocess.run([exe, "walkreplay", "--is-dir", "1" if asg["is_dir"] else "0", "--size-limit", size,
                                     "--filter", flt, "--ignored", "1" if asg["ignored"] else "0",
                                     "--follow", "1" if asg["follow_links"] else "0", "--symlink", "1" if asg["is_symlink"] else "0",
                                     "--ignored-link", "1" if asg["ignored_link"] else "0",
                                     "--ignored-resolved", "1" if asg["ignored_resolved"] else "0"],
                                    stdout=subprocess.PIPE, stderr=subprocess.STDOUT, text=True)
                m = re_search_replay(pr.stdout)
                if m:
                    ser, par = m
                    want = (not asg["ignored"]) and not (asg["size_limit_set"] and not asg["is_dir"] and asg["over_size"]) \
                        and not (asg["filter_set"] and not asg["filter_accepts"])
                    if qname == "c06_serial_eq_parallel":
                        rep = ser != par
                    elif qname == "c06_serial_is_documented":
                        rep = ser != want
                    else:
                        rep = par != want
                    detail += "; native replay on a real tree: serial yields=%s parallel yields=%s documented=%s" % (ser, par, want)
            res.append(mk(qname, K.FAIL, what + " -- violated: " + detail,
                          failed_checks=[(what, json.dumps(asg, sort_keys=True))], reproduced=rep,
                          witness=json.dumps(asg, sort_keys=True), program=qname))
    return res


def re_findall_model(out):
    import re
    return re.findall(r"\(define-fun (\w+) \(\) Bool\s+(true|false)\)", out)


def re_search_replay(out):
    import re
    m = re.search(r"serial=(\d) parallel=(\d)", out or "")
    if not m:
        return None
    return m.group(1) == "1", m.group(2) == "1"


RUNNERS["M"] = run_mir
_obligations_khm = obligations


def obligations(prop, tier, seed):  # noqa: F811
    out = _obligations_khm(prop, tier, seed)
    if prop == "C06":
        out.append(MObl())
    return out
