"""Engine M: MIR text -> decision skeleton -> SMT (C06, skip decision only).

The nightly compiler's MIR dump of the `ignore` crate (regenerated from the
scratch copy of /repo on every run) is read for the two functions that decide
whether a directory entry is handed on: `Walk::skip_entry` (serial) and
`Worker::generate_work` (parallel).  Both are loop-free.  Every CFG path is
evaluated symbolically: a call to one of a fixed list of callees yields a
Boolean atom shared between the two functions (`should_skip_entry`,
`path_equals`, `Option<u64>::is_some` on the size limit, `DirEntry::is_dir`,
`skip_filesize`, the filter predicate ...), every other call is opaque, and a
`switchInt` on a value derived from those atoms becomes a branch literal.  The
outcome of a path is "the entry is handed on" (serial: returns Ok(false);
parallel: reaches `Worker::send`).  z3 is then asked for an assignment of the
shared atoms on which the two outcomes differ (and, per function, on which the
outcome differs from the documented conjunction).  A branch on a value the
reader cannot classify makes the run inconclusive (exit 2), never 0 or 1.
"""
import os
import re
import subprocess

ATOM_CALLEES = [
    # (regex on callee text, atom name, kind)
    (r"^should_skip_entry$", "ignored", "bool"),
    (r"^path_equals$", "is_stdout", "result_bool"),
    (r"^Option::<u64>::is_some$", "size_limit_set", "bool"),
    (r"^walk::DirEntry::is_dir$", "is_dir", "bool"),
    (r"^skip_filesize$", "over_size", "bool"),
    (r"dyn for<'a> Fn\(&'a walk::DirEntry\) -> bool .* as Fn<.*>>::call$", "filter_accepts", "bool"),
    (r"^walk::DirEntry::depth$", "depth", "int"),
    (r"^check_symlink_loop$", "loop_check", "result_unit"),
    (r"^DirEntryRaw::from_entry$", "from_entry", "result"),
    (r"^DirEntryRaw::from_path$", "from_path", "result"),
    (r"^Option::<FileType>::map_or::<bool", "is_symlink", "bool"),
]
DISCR_ATOMS = [
    (r"Option<std::sync::Arc<same_file::Handle>>", "stdout_known"),
    (r"Option<walk::Filter>", "filter_set"),
]
FIELD_ATOMS = [
    # plain field reads that act as inputs
    (r"\(\(\*_1\)\.\d+: bool\)", "follow_links"),
]


class Inconclusive(Exception):
    pass


def dump_mir(repo, target):
    env = dict(os.environ)
    env["CARGO_NET_OFFLINE"] = "true"
    p = subprocess.run(
        ["cargo", "+nightly", "rustc", "--offline", "-p", "ignore", "--lib", "--target-dir", target, "--",
         "-Zunpretty=mir", "-C", "debug-assertions=off"],
        cwd=repo, env=env, stdout=subprocess.PIPE, stderr=subprocess.PIPE, text=True)
    if p.returncode != 0 or "fn " not in p.stdout:
        raise Inconclusive("MIR dump failed: " + p.stderr[-800:])
    return p.stdout


def function_body(mir, name_re):
    m = re.search(r"^fn ([^\n]*%s)\(.*?\{\n(.*?)^\}\n" % name_re, mir, re.M | re.S)
    if not m:
        raise Inconclusive("function %s not found in MIR" % name_re)
    return m.group(1), m.group(2)


def parse_blocks(body):
    blocks = {}
    for m in re.finditer(r"^    bb(\d+)( \(cleanup\))?: \{\n(.*?)^    \}\n", body, re.M | re.S):
        lines = [l.strip() for l in m.group(3).splitlines() if l.strip()]
        blocks[int(m.group(1))] = (bool(m.group(2)), lines)
    if not blocks:
        raise Inconclusive("no basic blocks parsed")
    return blocks


def split_args(s):
    out, depth, cur = [], 0, ""
    for c in s:
        if c in "(<[{":
            depth += 1
        if c in ")>]}":
            depth -= 1
        if c == "," and depth == 0:
            out.append(cur.strip())
            cur = ""
        else:
            cur += c
    if cur.strip():
        out.append(cur.strip())
    return out


def parse_call(term):
    """`[dest = ]callee(args) -> [return: bbN, ...];`  -> (dest, callee, args, N).
    The callee text may itself contain parentheses (Fn(..) types): the argument
    list is the LAST balanced parenthesis group before ` -> [return`."""
    mm = re.search(r"\) -> \[return: bb(\d+)(?:, unwind[^\]]*)?\];$", term)
    if not mm:
        return None
    end = mm.start()  # index of the closing paren of the argument list
    depth = 0
    i = end
    while i >= 0:
        c = term[i]
        if c == ")":
            depth += 1
        elif c == "(":
            depth -= 1
            if depth == 0:
                break
        i -= 1
    if i < 0:
        return None
    head = term[:i]
    args = term[i + 1:end]
    dest = None
    m2 = re.match(r"^(_\d+|\(\*_\d+\)) = (.*)$", head)
    if m2:
        dest, head = m2.group(1), m2.group(2)
    return dest, head.strip(), args, int(mm.group(1))


class Path:
    def __init__(self):
        self.env = {}     # local -> value
        self.conds = []   # [(atom, bool)]
        self.calls = []   # callee texts in order


def atom_for_callee(callee):
    for rx, name, kind in ATOM_CALLEES:
        if re.search(rx, callee):
            return name, kind
    return None, None


def eval_operand(p, op):
    op = op.strip()
    m = re.match(r"^(?:copy|move) (.*)$", op)
    if m:
        op = m.group(1).strip()
    if re.match(r"^_\d+$", op):
        return p.env.get(op, ("opaque", op))
    m = re.match(r"^const (true|false)$", op)
    if m:
        return ("const", m.group(1) == "true")
    m = re.match(r"^const (\d+)_\w+$", op)
    if m:
        return ("const", int(m.group(1)))
    # ((_9 as Continue).0: bool) : payload of a Try::branch / Result
    m = re.match(r"^\(\((_\d+) as (\w+)\)\.0: .*\)$", op)
    if m:
        base = p.env.get(m.group(1), ("opaque", m.group(1)))
        if base[0] == "atom" and base[2] in ("result_bool",):
            return ("atom", base[1], "bool")
        if base[0] == "branch":
            inner = base[1]
            if inner[0] == "atom" and inner[2] == "result_bool" and m.group(2) == "Continue":
                return ("atom", inner[1], "bool")
        return ("opaque", op)
    for rx, name in FIELD_ATOMS:
        if re.match("^" + rx + "$", op):
            return ("atom", name, "bool")
    return ("opaque", op)


def eval_rvalue(p, rv):
    rv = rv.strip()
    m = re.match(r"^Eq\((.*)\)$", rv)
    if m:
        a, b = [eval_operand(p, x) for x in split_args(m.group(1))]
        if a[0] == "atom" and a[2] == "int" and b == ("const", 0):
            return ("atom", a[1] + "_is_0", "bool")
        return ("opaque", rv)
    m = re.match(r"^Not\((.*)\)$", rv)
    if m:
        a = eval_operand(p, m.group(1))
        if a[0] == "const":
            return ("const", not a[1])
        if a[0] == "atom" and a[2] == "bool":
            return ("not", a)
        if a[0] == "not":
            return a[1]
        return ("opaque", rv)
    m = re.match(r"^discriminant\((.*)\)$", rv)
    if m:
        inner = m.group(1).strip()
        for rx, name in DISCR_ATOMS:
            if re.search(rx, inner):
                return ("discr_opt", name)
        mm = re.match(r"^\(?\*?(_\d+)\)?$", inner)
        if mm:
            v = p.env.get(mm.group(1), ("opaque", mm.group(1)))
            if v[0] == "ref":
                v = v[1]
            if v[0] == "param":
                return ("discr_param", v[1])
            if v[0] == "discr_src":
                return v[1]
            return ("discr", v)
        return ("opaque", rv)
    m = re.match(r"^&(mut )?(.*)$", rv)
    if m:
        inner = m.group(2).strip()
        for rx, name in DISCR_ATOMS:
            if re.search(rx, inner):
                return ("discr_src", ("discr_opt", name))
        mm = re.match(r"^(_\d+)$", inner)
        if mm:
            return ("ref", p.env.get(mm.group(1), ("opaque", mm.group(1))))
        return ("opaque", rv)
    m = re.match(r"^Result::<bool, Error>::Ok\((.*)\)$", rv)
    if m:
        return ("ok", eval_operand(p, m.group(1)))
    if rv.startswith("copy ") or rv.startswith("move ") or rv.startswith("const "):
        return eval_operand(p, rv)
    return ("opaque", rv)


def lit_of(val, target_int):
    """branch literal(s) for `switchInt(val)` taking the arm `target_int`
    (None = otherwise).  Returns (atom, bool) / True (always) / False (never) / None (unknown)"""
    if val[0] == "const":
        v = val[1]
        iv = int(v) if not isinstance(v, bool) else (1 if v else 0)
        return None if target_int is None else (iv == target_int)
    if val[0] == "atom" and val[2] == "bool":
        if target_int is None:
            return (val[1], True)
        return (val[1], target_int != 0)
    if val[0] == "not":
        r = lit_of(val[1], target_int)
        if isinstance(r, tuple):
            return (r[0], not r[1])
        return r
    if val[0] == "discr_opt":
        if target_int is None:
            return False
        return (val[1], target_int == 1)
    if val[0] == "discr":
        inner = val[1]
        if inner[0] == "branch":
            inner = inner[1]
        if inner[0] == "atom" and inner[2] in ("result_bool", "result", "result_unit"):
            # 0 = Ok/Continue, 1 = Err/Break
            if target_int is None:
                return False
            return (inner[1] + "_err", target_int == 1)
    if val[0] == "discr_param":
        if target_int is None:
            return False
        return (val[1] + "_err", target_int == 1)
    return None


def paths_of(blocks, params, handed_on_call=None, versioned=None):
    """Enumerate acyclic non-cleanup paths; returns list of (conds, outcome, calls)
    outcome: 'on' (entry handed on) | 'skip' | 'error' | ('on_unless', atom)"""
    results = []
    seen_unknown = []

    def run(bb, p, visited):
        if bb in visited:
            raise Inconclusive("loop in MIR of a function assumed loop-free (bb%d)" % bb)
        visited = visited | {bb}
        cleanup, lines = blocks[bb]
        if cleanup:
            return
        for ln in lines[:-1]:
            m = re.match(r"^(_\d+) = (.*);$", ln)
            if m:
                p.env[m.group(1)] = eval_rvalue(p, m.group(2))
        term = lines[-1]
        m = parse_call(term)
        if term.startswith("switchInt("):
            mm = re.match(r"^switchInt\((.*)\) -> \[(.*)\];$", term)
            val = eval_operand(p, mm.group(1))
            arms = []
            for a in split_args(mm.group(2)):
                k, t = a.split(":")
                arms.append((None if k.strip() == "otherwise" else int(k.strip()), int(t.strip()[2:])))
            explicit = [k for k, _ in arms if k is not None]
            if val[0] == "const":
                iv = (1 if val[1] else 0) if isinstance(val[1], bool) else int(val[1])
                tgt = None
                for k, t in arms:
                    if k == iv:
                        tgt = t
                if tgt is None:
                    tgt = [t for k, t in arms if k is None][0]
                run(tgt, p, visited)
                return
            for k, t in arms:
                if blocks[t][1] == ["unreachable;"]:
                    continue
                if k is None and val[0] in ("atom", "not") :
                    # bool: otherwise == true when only 0 is explicit
                    lit = lit_of(val, 1) if explicit == [0] else None
                else:
                    lit = lit_of(val, k)
                if lit is None:
                    seen_unknown.append((bb, mm.group(1), val))
                    raise Inconclusive("cannot classify the branch condition `%s` (= %r) in bb%d" % (mm.group(1), val, bb))
                if lit is False:
                    continue
                q = Path()
                q.env = dict(p.env)
                q.conds = list(p.conds)
                q.calls = list(p.calls)
                if lit is not True:
                    if any(a == lit[0] and b != lit[1] for a, b in q.conds):
                        continue  # contradictory
                    if lit not in q.conds:
                        q.conds.append(lit)
                run(t, q, visited)
            return
        if term.startswith("goto -> "):
            run(int(term[len("goto -> bb"):-1]), p, visited)
            return
        if term == "return;":
            if handed_on_call:
                on = any(re.search(handed_on_call, c) for c in p.calls)
                err = any("ParallelVisitor>::visit" in c for c in p.calls)
                results.append((p.conds, "error" if err else ("on" if on else "skip"), p.calls))
            else:
                r = p.env.get("_0", ("opaque", "_0"))
                if r[0] == "ok" and r[1] == ("const", False):
                    results.append((p.conds, "on", p.calls))
                elif r[0] == "ok" and r[1] == ("const", True):
                    results.append((p.conds, "skip", p.calls))
                elif r[0] == "ok" and r[1][0] == "atom":
                    results.append((p.conds + [(r[1][1], False)], "on", p.calls))
                    results.append((p.conds + [(r[1][1], True)], "skip", p.calls))
                elif r[0] == "residual":
                    results.append((p.conds, "error", p.calls))
                else:
                    raise Inconclusive("cannot classify the return value %r" % (r,))
            return
        if term.startswith("drop("):
            mm = re.match(r"^drop\(.*\) -> \[return: bb(\d+)", term)
            run(int(mm.group(1)), p, visited)
            return
        if term.startswith("assert("):
            mm = re.search(r"success: bb(\d+)", term)
            run(int(mm.group(1)), p, visited)
            return
        if m:
            dest, callee, _args, nxt = m
            p.calls.append(callee)
            name, kind = atom_for_callee(callee)
            if name and versioned and name in versioned:
                # the same callee applied to a value that an earlier call on this path has
                # re-computed is a different input: should_skip_entry(ig, dent) after the
                # symlink re-stat (DirEntryRaw::from_path) sees the RESOLVED entry
                prior_rx, name_after, name_before = versioned[name]
                name = name_after if any(re.search(prior_rx, c) for c in p.calls[:-1]) else name_before
            if dest:
                dest = dest.strip()
                if name:
                    p.env[dest] = ("atom", name, kind)
                elif "as Try>::branch" in callee:
                    arg = eval_operand(p, split_args(_args)[0])
                    p.env[dest] = ("branch", arg)
                elif "from_residual" in callee:
                    p.env[dest] = ("residual",)
                else:
                    p.env[dest] = ("opaque", callee)
            run(nxt, p, visited)
            return
        if term == "unreachable;":
            return
        raise Inconclusive("unknown terminator: " + term[:120])

    p0 = Path()
    for k, v in params.items():
        p0.env[k] = v
    run(0, p0, frozenset())
    return results


def formula(paths, want="on"):
    alts = []
    for conds, outcome, _calls in paths:
        if outcome != want:
            continue
        lits = ["%s" % a if b else "(not %s)" % a for a, b in conds]
        alts.append("(and true %s)" % " ".join(lits))
    return "(or false %s)" % " ".join(alts)


def atoms_of(*pathsets):
    s = set()
    for ps in pathsets:
        for conds, _o, _c in ps:
            for a, _b in conds:
                s.add(a)
    return sorted(s)
