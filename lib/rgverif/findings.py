"""known-findings.json: committed, never written at run time.

A finding is keyed by property + role: the generic harness function(s) that
exercise the defective call site and the assertion message(s) that fail there.
A failing obligation is "known" only if its harness function is listed AND every
failed assertion of the run is one of the listed messages; any other failing
assertion of the same harness, or the same assertion in another harness, is
still reported as a VIOLATION.  `fixed` entries suppress nothing.
"""
import json
import os
import re

from . import kani as K

PATH = os.path.join(K.VERIF, "known-findings.json")


def load():
    if not os.path.exists(PATH):
        return {"findings": [], "fixed": []}
    return json.load(open(PATH))


def match(known, prop, r):
    failed = [d for d, _w in r.get("failed_checks", [])]
    if not failed:
        return None
    for kf in known.get("findings", []):
        if kf.get("property") != prop:
            continue
        fns = kf.get("harness_fns", [])
        if not any(r.get("fn") == f or r["name"].startswith(f) for f in fns):
            continue
        if kf.get("programs") is not None and r.get("program") not in kf["programs"]:
            continue
        prog = r.get("program") or ""
        if not all(x in prog for x in kf.get("program_contains", [])):
            continue
        if kf.get("program_regex") and not re.search(kf["program_regex"], prog):
            continue
        wit = r.get("witness") or ""
        if not all(x in wit for x in kf.get("witness_contains", [])):
            continue
        if kf.get("witness_regex") and not re.search(kf["witness_regex"], wit):
            continue
        if all(any(a in d for a in kf.get("assertions", [])) for d in failed):
            return kf
    return None
