"""bin/check driver: decide one property with its registered obligations."""
import argparse
import json
import os
import sys
import time

from . import kani as K
from . import registry
from . import findings as F

VERIF = K.VERIF
EVID = os.environ.get("VERIF_EVIDENCE_DIR") or os.path.join(VERIF, "evidence")


def main(argv=None):
    ap = argparse.ArgumentParser()
    ap.add_argument("prop")
    ap.add_argument("--tier", default=os.environ.get("VERIF_TIER", "quick"), choices=["quick", "thorough"])
    ap.add_argument("--replay", default=None)
    ap.add_argument("--only", default=None, help="substring filter on obligation names (debugging; evidence marks it)")
    ap.add_argument("--jobs", type=int, default=int(os.environ.get("VERIF_JOBS", "12")))
    args = ap.parse_args(argv)
    seed = int(os.environ.get("VERIF_SEED", "0") or 0)
    prop = args.prop.upper()
    t0 = time.time()

    if args.replay:
        rp = json.load(open(args.replay))
        # SMT obligations are named <runner>:<kind>:<program>; re-run the runner they came from
        args.only = (rp.get("obligation") or "").split(":")[0]
        args.tier = rp.get("tier", args.tier)

    obls = registry.obligations(prop, args.tier, seed)
    if args.only:
        pats = [x for x in args.only.split(",") if x]
        obls = [o for o in obls if any(x in o.name for x in pats)]
    if not obls:
        print("no obligations registered for", prop, file=sys.stderr)
        return 2

    results = []  # list of dict
    ctx = {"tier": args.tier, "seed": seed, "jobs": args.jobs, "prop": prop}
    # group by engine runner
    by_engine = {}
    for o in obls:
        by_engine.setdefault(o.engine, []).append(o)
    for eng, group in by_engine.items():
        runner = registry.RUNNERS[eng]
        results.extend(runner(group, ctx))

    known = F.load()
    violations = []
    known_hits = []
    inconclusive = []
    discharged = 0
    nontrivial = 0
    for r in results:
        st = r["status"]
        if st == K.OK:
            discharged += r.get("count", 1)
            if r.get("nontrivial"):
                nontrivial += r.get("nontrivial_count", 1)
        elif st == K.FAIL:
            kf = F.match(known, prop, r)
            if kf is not None:
                known_hits.append((kf, r))
            elif r.get("reproduced") is True:
                violations.append(r)
            else:
                r["status"] = K.INCONCLUSIVE
                r["reason"] = "non-reproducing counterexample (encoding or stub suspect): " + str(r.get("reason"))
                inconclusive.append(r)
        else:
            inconclusive.append(r)

    os.makedirs(os.path.join(EVID, "replay"), exist_ok=True)
    seen_kf = {}
    for kf, r in known_hits:
        seen_kf.setdefault(kf["id"], [kf, 0, r["name"]])[1] += 1
    for kid, (kf, cnt, example) in sorted(seen_kf.items()):
        print("KNOWN-FINDING: property=%s %s [%s; %d obligation(s), e.g. %s]" % (prop, kf["what"], kid, cnt, example[:120]))
    seen = set()
    for i, r in enumerate(violations):
        path = os.path.join(EVID, "replay", "%s-%s.json" % (prop, _safe(r["name"])))
        json.dump({"property": prop, "obligation": r["name"], "tier": args.tier, "result": r}, open(path, "w"), indent=1)
        print("VIOLATION property=%s replay=%s" % (prop, path))
        for d, w in r.get("failed_checks", [])[:4]:
            print("  failed: %s @ %s" % (d, w))
    for r in inconclusive:
        print("INCONCLUSIVE property=%s obligation=%s: %s" % (prop, r["name"], str(r.get("reason"))[:400]))

    wall = time.time() - t0
    ev = registry.evidence(prop, args.tier, seed, obls, results, {
        "discharged": discharged, "nontrivial": nontrivial, "violations": len(violations),
        "known": len(known_hits), "inconclusive": len(inconclusive), "wall_s": wall,
        "filtered": bool(args.only)})
    if args.only:
        json.dump(ev, open("/tmp/rgverif-partial-%s.json" % prop, "w"), indent=1)
    if not args.only:
        os.makedirs(EVID, exist_ok=True)
        tmp = os.path.join(EVID, prop + ".json.tmp")
        json.dump(ev, open(tmp, "w"), indent=1)
        os.replace(tmp, os.path.join(EVID, prop + ".json"))
    print("%s tier=%s: %d obligations, %d discharged, %d known findings, %d violations, %d inconclusive, %.0fs" % (
        prop, args.tier, len(results), discharged, len(known_hits), len(violations), len(inconclusive), wall))
    if violations:
        return 1
    if inconclusive:
        return 2
    return 0


def _safe(s):
    return "".join(c if c.isalnum() or c in "-_." else "_" for c in s)[-80:]
