"""Engine K: run Kani harnesses over a scratch copy of /repo's working tree.

Nothing is cached between runs except the memchr model (which does not depend
on /repo).  Every cargo-kani process runs under `timeout`; a timeout, an OOM, an
unwinding-assertion failure or an unsupported construct is INCONCLUSIVE, never
a pass and never a violation.
"""
import json
import os
import re
import shutil
import subprocess
import sys
import time

VERIF = os.path.dirname(os.path.dirname(os.path.dirname(os.path.abspath(__file__))))
REPO = os.environ.get("RG_VERIF_REPO", "/repo")
CACHE = os.path.join(VERIF, ".cache")
MEMCHR_MODEL = os.path.join(CACHE, "memchr-kani")

OK, FAIL, INCONCLUSIVE = "discharged", "failed", "inconclusive"


def log(*a):
    print(*a, file=sys.stderr, flush=True)


def ensure_memchr_model():
    if not os.path.exists(os.path.join(MEMCHR_MODEL, "VERIF_MODEL")):
        os.makedirs(CACHE, exist_ok=True)
        subprocess.check_call(
            [sys.executable, os.path.join(VERIF, "lib", "mk_memchr_model.py"), MEMCHR_MODEL],
            stdout=sys.stderr,
        )


class HarnessResult:
    def __init__(self, name):
        self.name = name
        self.status = INCONCLUSIVE
        self.reason = "no result"
        self.failed = []  # [(description, location)]
        self.covers = {}  # description -> SATISFIED/UNSATISFIABLE/...
        self.n_checks = 0
        self.symex_s = 0.0
        self.solver_s = 0.0
        self.wall_s = 0.0
        self.playback = None

    def to_json(self):
        return {
            "harness": self.name,
            "status": self.status,
            "reason": self.reason,
            "failed_checks": self.failed[:8],
            "covers": self.covers,
            "checks": self.n_checks,
            "symex_s": round(self.symex_s, 3),
            "solver_s": round(self.solver_s, 3),
            "wall_s": round(self.wall_s, 2),
            "playback": self.playback,
        }


INCONCLUSIVE_PAT = re.compile(
    r"unwinding assertion|not currently supported by Kani|unsupported construct|"
    r"recursion unwinding", re.I
)


class Scratch:
    """A scratch copy of /repo's working tree + /verif/kani, removed on exit."""

    def __init__(self, tag="k"):
        base = os.environ.get("VERIF_SCRATCH", "/var/tmp")
        self.root = os.path.join(base, "rgverif.%s.%d" % (tag, os.getpid()))
        self.repo = os.path.join(self.root, "repo")
        self.kdir = os.path.join(self.root, "kani")
        self.target = os.path.join(self.root, "target")
        self.patched = False

    def __enter__(self):
        if os.path.exists(self.root):
            shutil.rmtree(self.root)
        os.makedirs(self.root)
        subprocess.check_call(
            ["rsync", "-a", "--exclude", "/target", "--exclude", ".git", REPO + "/", self.repo + "/"]
        )
        shutil.copytree(os.path.join(VERIF, "kani"), self.kdir)
        return self

    def __exit__(self, *exc):
        if os.environ.get("VERIF_KEEP_SCRATCH"):
            log("keeping scratch", self.root)
        else:
            shutil.rmtree(self.root, ignore_errors=True)

    # -- scratch-only edits -------------------------------------------------
    def patch_memchr(self, extra_toml=""):
        ensure_memchr_model()
        ct = os.path.join(self.repo, "Cargo.toml")
        s = open(ct).read()
        s += '\n[patch.crates-io]\nmemchr = { path = "%s" }\n' % MEMCHR_MODEL
        s += extra_toml
        open(ct, "w").write(s)
        self.patched = True

    def write_gen(self, rel, text):
        p = os.path.join(self.kdir, rel)
        os.makedirs(os.path.dirname(p), exist_ok=True)
        open(p, "w").write(text)

    def env(self):
        e = dict(os.environ)
        e["CARGO_NET_OFFLINE"] = "true"
        e["RG_VERIF_KANI_DIR"] = self.kdir
        e.pop("RUSTFLAGS", None)
        return e

    # -- running ------------------------------------------------------------
    def loop_ids(self, crate, harnesses, probes, target=None):
        """Compile only, then list the CBMC loop ids of the probe harnesses'
        goto binaries: [(loop id, pretty function name)].  Used to turn
        per-function unwind rules into --unwindset entries (the ids embed crate
        hashes and monomorphisation, so they are discovered on every run)."""
        target = target or self.target
        cmd = ["cargo", "kani", "-p", crate, "--target-dir", target, "--only-codegen",
               "-Z", "unstable-options", "-Z", "stubbing", "--exact"]
        for h in harnesses:
            cmd += ["--harness", h]
        shell = "exec timeout -k 10 900 " + " ".join(_q(c) for c in cmd)
        p = subprocess.run(["bash", "-c", shell], cwd=self.repo, env=self.env(),
                           stdout=subprocess.PIPE, stderr=subprocess.STDOUT, text=True)
        self.last_output = p.stdout
        if p.returncode != 0:
            open(os.path.join(self.root, "last_kani.%s.log" % os.path.basename(target)), "w").write(p.stdout)
            self.last_output = p.stdout
            return None
        import glob
        out = {}
        procs = []
        out["memcmp.0"] = "memcmp"
        for h in probes:
            leaf = h.split("::")[-1]
            pat = os.path.join(target, "kani", "*", "debug", "build", "*", "*", "out",
                               "*%d%s.out" % (len(leaf), leaf))
            files = sorted(glob.glob(pat), key=os.path.getmtime)
            if not files:
                log("loop_ids: no symtab for", h)
                continue
            procs.append(subprocess.Popen(["cbmc", "--show-loops", files[-1]], stdout=subprocess.PIPE,
                                          stderr=subprocess.DEVNULL, text=True))
        for pr in procs:
            txt, _ = pr.communicate(timeout=300)
            for m in re.finditer(r"^Loop (\S+):\n\s+file (\S+) line (\d+) column \d+ function (.*)$", txt, re.M):
                out[m.group(1)] = m.group(4).strip()
        return out

    @staticmethod
    def unwindset(loops, rules):
        """rules: [(regex on pretty function name [+ '.N' loop index], bound)];
        first match wins; loops matching no rule keep the global bound."""
        parts = []
        used = []
        for lid, fn in sorted(loops.items()):
            key = fn + "." + lid.rsplit(".", 1)[-1]
            for rx, bound in rules:
                if re.search(rx, key):
                    parts.append("%s:%d" % (lid, bound))
                    used.append((key, bound))
                    break
        return ",".join(parts), used

    def run(self, crate, harnesses, jobs=8, harness_timeout=300, extra_args=(), mem_gb=7, exact=True,
            unwind_rules=None, probes=None, target=None, meta=None):
        """Run the given harnesses (full names) of one crate in one cargo-kani
        invocation.  Returns {harness: HarnessResult}."""
        res = {h: HarnessResult(h) for h in harnesses}
        if not harnesses:
            return res
        target = target or self.target
        if meta is None:
            meta = {}
        meta["cbmc_args"] = []
        meta["unwindset"] = []
        self.last_unwindset = []
        self.last_cbmc_args = []
        cbmc_args = []
        if unwind_rules:
            loops = self.loop_ids(crate, harnesses, probes or harnesses[:1], target=target)
            if loops is None:
                errs = "\n".join(l for l in self.last_output.splitlines() if "error" in l)[:2000]
                for r in res.values():
                    r.reason = "harness crate does not compile: " + errs
                return res
            uws, used = self.unwindset(loops, unwind_rules)
            self.last_unwindset = used
            meta["unwindset"] = used
            if uws:
                cbmc_args = ["--cbmc-args", "--unwindset", uws]
                self.last_cbmc_args = cbmc_args
                meta["cbmc_args"] = cbmc_args
        out_json = os.path.join(self.root, "out.%s.%d.json" % (os.path.basename(target), int(time.time() * 1000)))
        cmd = ["cargo", "kani", "-p", crate, "--target-dir", target,
               "-Z", "unstable-options", "-Z", "stubbing",
               "--harness-timeout", "%ds" % harness_timeout,
               "--export-json", out_json,
               "--output-format", "terse", "-j", str(max(1, min(jobs, len(harnesses)))),
               # raw-pointer validity checks in unsafe code (std internals, the
               # memchr model) are not what any property here is about; Rust-level
               # panics (bounds, overflow, unwrap, assert!) are all kept.
               "--no-memory-safety-checks",
               # reachability is witnessed by each harness's own reach-end cover
               "--no-assertion-reach-checks"]
        if exact:
            cmd.append("--exact")
        for h in harnesses:
            cmd += ["--harness", h]
        cmd += list(extra_args)
        cmd += cbmc_args  # must be last
        # the whole invocation: build + ceil(n/jobs) rounds of harness_timeout
        rounds = (len(harnesses) + jobs - 1) // max(1, jobs)
        overall = 240 + rounds * (harness_timeout + 30)
        shell = "ulimit -v %d; exec timeout -k 10 %d %s" % (
            mem_gb * 1024 * 1024, overall, " ".join(_q(c) for c in cmd))
        t0 = time.time()
        p = subprocess.run(["bash", "-c", shell], cwd=self.repo, env=self.env(),
                           stdout=subprocess.PIPE, stderr=subprocess.STDOUT, text=True)
        wall = time.time() - t0
        self.last_output = p.stdout
        open(os.path.join(self.root, "last_kani.%s.log" % os.path.basename(target)), "w").write(p.stdout)
        if p.returncode == 124:
            for r in res.values():
                r.reason = "cargo-kani invocation timed out after %ds" % overall
        parsed = False
        if os.path.exists(out_json):
            try:
                self._parse_json(json.load(open(out_json)), res)
                parsed = True
            except Exception as e:  # noqa
                log("export-json parse error:", e)
        if not parsed:
            self._parse_terse(p.stdout, res)
            if "error: could not compile" in p.stdout or "error[E" in p.stdout:
                errs = "\n".join(l for l in p.stdout.splitlines() if "error" in l)[:2000]
                for r in res.values():
                    r.status = INCONCLUSIVE
                    r.reason = "harness crate does not compile: " + errs
        for r in res.values():
            if r.wall_s == 0.0:
                r.wall_s = wall
        return res

    def _parse_json(self, d, res):
        short = {}
        for h in res:
            short[h] = h
        stats = {}
        for c in d.get("cbmc") or []:
            if c:
                stats[c["harness_id"]] = c.get("cbmc_stats") or {}
        errs = {e["harness_id"]: e for e in (d.get("error_details") or []) if e}
        for r in (d.get("verification_results") or {}).get("results") or []:
            if not r:
                continue
            hid = r["harness_id"]
            hr = res.get(hid)
            if hr is None:
                # match by suffix
                for h in res:
                    if hid.endswith(h) or h.endswith(hid):
                        hr = res[h]
                        break
            if hr is None:
                continue
            hr.wall_s = r.get("duration_ms", 0) / 1000.0
            st = stats.get(hid, {})
            hr.symex_s = float(st.get("runtime_symex_s", 0) or 0)
            hr.solver_s = float(st.get("runtime_decision_procedure_s", 0) or 0)
            checks = r.get("checks") or []
            hr.n_checks = len(checks)
            inconclusive = []
            failed = []
            for c in checks:
                status = c.get("status", "")
                desc = c.get("description", "")
                cat = c.get("category", "")
                loc = c.get("location", {}) or {}
                where = "%s:%s" % (loc.get("file", "?"), loc.get("line", "?"))
                if cat == "cover" or status in ("Satisfied", "Unsatisfiable"):
                    hr.covers[desc] = status.upper()
                    continue
                if status in ("Failure",):
                    if INCONCLUSIVE_PAT.search(desc) or cat in ("unwind", "unsupported_construct"):
                        inconclusive.append((desc, where))
                    else:
                        failed.append((desc, where))
                elif status in ("Undetermined", "SolverError"):
                    inconclusive.append((status + ": " + desc, where))
            e = errs.get(hid, {})
            if r.get("status") == "Success" and not failed and not inconclusive:
                hr.status = OK
                hr.reason = "VERIFICATION SUCCESSFUL"
            elif inconclusive or not checks:
                hr.status = INCONCLUSIVE
                inconclusive.sort(key=lambda x: (x[0].startswith("Undetermined"), x[0]))
                hr.reason = "inconclusive: " + (
                    "; ".join("%s @ %s" % x for x in inconclusive[:3])
                    or "%s/%s" % (e.get("error_type"), e.get("exit_status")))
                hr.failed = failed
            elif failed:
                hr.status = FAIL
                hr.reason = "assertion(s) failed"
                hr.failed = failed
            else:
                hr.status = INCONCLUSIVE
                hr.reason = "status %s, error %s" % (r.get("status"), json.dumps(e))

    def _parse_terse(self, out, res):
        cur = {}
        thread = None
        blocks = {}
        for line in out.splitlines():
            m = re.match(r"(?:Thread (\d+): )?Checking harness (\S+?)\.\.\.", line)
            if m:
                thread = m.group(1) or "0"
                cur[thread] = m.group(2)
                blocks.setdefault(m.group(2), [])
                continue
            m = re.match(r"Thread (\d+): *$", line)
            if m:
                thread = m.group(1)
                continue
            if thread is not None and thread in cur:
                blocks[cur[thread]].append(line)
        for h, lines in blocks.items():
            hr = res.get(h)
            if hr is None:
                continue
            txt = "\n".join(lines)
            if "VERIFICATION:- SUCCESSFUL" in txt:
                hr.status, hr.reason = OK, "VERIFICATION SUCCESSFUL (terse)"
            elif "VERIFICATION:- FAILED" in txt:
                fc = re.findall(r'Failed Checks: (.*)\n File: "([^"]+)", line (\d+)', txt)
                inc = [f for f in fc if INCONCLUSIVE_PAT.search(f[0])]
                if inc or not fc or "CBMC timed out" in txt or "Status: ERROR" in txt:
                    hr.status, hr.reason = INCONCLUSIVE, "inconclusive (terse): " + txt[-300:]
                else:
                    hr.status, hr.reason = FAIL, "assertion(s) failed (terse)"
                    hr.failed = [(f[0], "%s:%s" % (f[1], f[2])) for f in fc]

    # -- replay ---------------------------------------------------------------
    def playback(self, crate, harness, harness_timeout=600, cbmc_args=()):
        """Re-run one failing harness with concrete playback, then execute the
        generated unit test natively (dev and release) against the scratch copy
        with the REAL memchr.  Returns dict(reproduced=bool|None, detail=str)."""
        cmd = ["cargo", "kani", "-p", crate, "--target-dir", self.target,
               "-Z", "unstable-options", "-Z", "stubbing", "-Z", "concrete-playback",
               "--concrete-playback=inplace", "--harness-timeout", "%ds" % harness_timeout,
               "--no-memory-safety-checks", "--no-assertion-reach-checks",
               "--exact", "--harness", harness] + list(cbmc_args)
        shell = "ulimit -v %d; exec timeout -k 10 %d %s" % (
            16 * 1024 * 1024, harness_timeout + 240, " ".join(_q(c) for c in cmd))
        p = subprocess.run(["bash", "-c", shell], cwd=self.repo, env=self.env(),
                           stdout=subprocess.PIPE, stderr=subprocess.STDOUT, text=True)
        out = p.stdout
        leaf = harness.split("::")[-1]
        prefix = "kani_concrete_playback_" + leaf
        # the generated tests are written into the harness source (scratch copy)
        gen_src = ""
        ntests = 0
        for root, _d, files in os.walk(self.kdir):
            for f in files:
                s = open(os.path.join(root, f), errors="replace").read()
                for mm in re.finditer(r"/// Test generated for harness.*?\n}\n", s, re.S):
                    if ("fn " + prefix) in mm.group(0):
                        ntests += 1
                        if "Check for `assertion`" in mm.group(0) or not gen_src:
                            gen_src = mm.group(0)[:3000]
        if ntests == 0:
            return {"reproduced": None, "detail": "no concrete playback test generated: " + out[-600:]}
        test = prefix
        # native run with the real memchr
        self._unpatch()
        results = {}
        for prof in ("dev",):  # `cargo kani playback` has no --release
            cmd = ["cargo", "kani", "playback", "-Z", "concrete-playback", "-p", crate]
            if prof == "release":
                cmd.append("--release")
            cmd += ["--", test, "--exact"] if False else ["--", test]
            shell = "exec timeout -k 10 900 " + " ".join(_q(c) for c in cmd)
            env = self.env()
            env["CARGO_TARGET_DIR"] = os.path.join(self.root, "target-playback")
            q = subprocess.run(["bash", "-c", shell], cwd=self.repo, env=env,
                               stdout=subprocess.PIPE, stderr=subprocess.STDOUT, text=True)
            o = q.stdout
            if re.search(r"test result: FAILED", o):
                results[prof] = "fails (reproduced)"
            elif re.search(r"test result: ok\. [1-9]\d* passed", o):
                results[prof] = "passes (NOT reproduced)"
            else:
                results[prof] = "could not run: " + o[-400:]
        self._repatch()
        rep = None
        if any(v.startswith("fails") for v in results.values()):
            rep = True
        elif all(v.startswith("passes") for v in results.values()):
            rep = False
        return {"reproduced": rep, "test": test, "native": results, "generated_test": gen_src}

    def _unpatch(self):
        ct = os.path.join(self.repo, "Cargo.toml")
        s = open(ct).read()
        i = s.find("\n[patch.crates-io]\nmemchr")
        if i >= 0:
            self._patch_tail = s[i:]
            # keep any extra (non-memchr) patch entries / deps that harness crates need
            tail = self._patch_tail.replace('memchr = { path = "%s" }\n' % MEMCHR_MODEL, "")
            open(ct, "w").write(s[:i] + tail)
            shutil.copy(os.path.join(REPO, "Cargo.lock"), os.path.join(self.repo, "Cargo.lock"))

    def _repatch(self):
        if getattr(self, "_patch_tail", None) is not None:
            ct = os.path.join(self.repo, "Cargo.toml")
            s = open(ct).read()
            i = s.find("\n[patch.crates-io]")
            if i >= 0:
                s = s[:i]
            open(ct, "w").write(s + self._patch_tail)


def _q(s):
    if re.match(r"^[\w@%+=:,./-]+$", s):
        return s
    return "'" + s.replace("'", "'\\''") + "'"
