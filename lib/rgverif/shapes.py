"""Shape family for the Engine-K searcher/printer harnesses (DESIGN.md 1.4).

A shape is a concrete byte string: line i's content is the letter 'a'+i
repeated clen[i] times (0..2) followed by its terminator; the last line may be
unterminated.  Terminator family: LF ("\\n"), CRLF (each line ends in "\\r\\n"
or a lone "\\n"), NUL ("\\0").  Everything else a property quantifies over is a
kani::any() in the harness.
"""
import itertools

T_LF, T_CRLF, T_NUL = 0, 1, 2
TERM_NAME = {0: "T_LF", 1: "T_CRLF", 2: "T_NUL"}


class Shape:
    def __init__(self, name, lines, term):
        """lines: list of (clen, termstr) ; termstr in {"\\n", "\\r\\n", "\\0", ""}"""
        self.name = name
        self.lines = lines
        self.term = term
        hay = b""
        lstart = []
        clen = []
        for i, (cl, t) in enumerate(lines):
            lstart.append(len(hay))
            hay += bytes([ord("a") + i]) * cl + t.encode("latin1")
            clen.append(cl)
        lstart.append(len(hay))
        self.hay = hay
        self.lstart = lstart
        self.clen = clen
        self.nl = len(lines)

    def rust_bytes(self):
        return 'b"' + "".join("\\x%02x" % b for b in self.hay) + '"'

    def descr(self):
        return repr(self.hay)[2:-1]

    def decl(self):
        return (
            "pub(crate) struct {n};\n"
            "impl Shape for {n} {{\n"
            "    const HAY: &'static [u8] = {hay};\n"
            "    const NL: usize = {nl};\n"
            "    const LSTART: &'static [usize] = &{ls};\n"
            "    const CLEN: &'static [usize] = &{cl};\n"
            "    const TERM: u8 = {t};\n"
            "}}\n"
        ).format(
            n=self.name,
            hay=self.rust_bytes(),
            nl=self.nl,
            ls=self.lstart,
            cl=self.clen if self.clen else "[]",
            t=TERM_NAME[self.term],
        )


def from_bytes(name, hay, term=T_LF):
    """Shape from explicit bytes (used for the NUL-bearing C14 shapes): lines
    split on the terminator byte; clen = content length."""
    tb = {T_LF: b"\n", T_CRLF: b"\n", T_NUL: b"\0"}[term]
    sh = Shape.__new__(Shape)
    sh.name = name
    sh.term = term
    sh.hay = hay
    lstart = []
    clen = []
    i = 0
    while i < len(hay):
        lstart.append(i)
        j = hay.find(tb, i)
        if j < 0:
            clen.append(len(hay) - i)
            i = len(hay)
        else:
            clen.append(j - i)
            i = j + 1
    lstart.append(len(hay))
    sh.lstart = lstart
    sh.clen = clen
    sh.nl = len(clen)
    sh.lines = None
    return sh


# NUL-bearing shapes for C14 and their "converted" twins (every NUL replaced by
# the terminator); letters are unique per line of the converted twin
NUL_SPECS = [
    ("n_mid", b"a\nb\0c\nd\n"),
    ("n_mid2", b"a\0b\nc\n"),
    ("n_first", b"\0b\n"),
    ("n_last", b"a\nb\0"),
    ("n_double", b"a\0\0c\n"),
    ("n_none", b"a\nb\n"),
]


def nul_term_shapes():
    """NUL-terminated records whose content contains \\n (the buffer must cut at
    the CONFIGURED terminator, not at \\n)"""
    return [from_bytes("z_nl_in_record", b"a\nx\0b\0", T_NUL)]


def nul_shapes():
    out = []
    for n, hay in NUL_SPECS:
        # convention the harness matchers rely on: line i of the converted twin starts with letter 'a'+i (or is empty)
        for i, ln in enumerate(hay.replace(b"\0", b"\n").split(b"\n")):
            assert ln == b"" or ln[0] == ord("a") + i, (n, i, ln)
        out.append((from_bytes(n, hay), from_bytes(n + "_conv", hay.replace(b"\0", b"\n"))))
    return out


def _mk(name, spec, term=T_LF):
    """spec: string over the line alphabet: digits = content length, then
    'n' = \\n, 'r' = \\r\\n, 'z' = NUL, '-' = no terminator; e.g. "1n0n1-" """
    lines = []
    for i in range(0, len(spec), 2):
        cl = int(spec[i])
        t = {"n": "\n", "r": "\r\n", "z": "\0", "-": ""}[spec[i + 1]]
        lines.append((cl, t))
    return Shape(name, lines, term)


QUICK_SPECS = [
    # name, spec, term
    ("q_empty", "", T_LF),
    ("q_one_unterm", "1-", T_LF),
    ("q_one", "1n", T_LF),
    ("q_blank", "0n", T_LF),
    ("q_two", "1n1n", T_LF),
    ("q_blank_mid", "1n0n1n", T_LF),
    ("q_blank_first", "0n1n1-", T_LF),
    ("q_blank_last", "1n1n0n", T_LF),
    ("q_four", "1n1n1n1n", T_LF),
    ("q_five_unterm", "1n1n1n1n1-", T_LF),
    ("q_long", "2n1n2n", T_LF),
    ("q_crlf_mix", "1r1n1r", T_CRLF),
    ("q_crlf_blank", "0r1r0n", T_CRLF),
    ("q_nul", "1z1z1-", T_NUL),
]

# extra named shapes (not part of the default quick family)
EXTRA_SPECS = [
    ("m_two_unterm", "1n1-", T_LF),
    ("m_blank_mid", "1n0n1-", T_LF),
    ("m_three", "1n1n1-", T_LF),
]


def quick_shapes():
    return [_mk(n, s, t) for n, s, t in QUICK_SPECS]


def all_shapes(max_lines=5, max_bytes=9):
    """Thorough tier: every shape with <= max_lines lines and <= max_bytes bytes
    (LF family complete; CRLF and NUL families with <= 3 lines)."""
    out = []
    k = 0
    for nl in range(0, max_lines + 1):
        for cls in itertools.product([0, 1, 2], repeat=nl):
            for last_term in (True, False):
                if nl == 0 and not last_term:
                    continue
                lines = []
                for i, cl in enumerate(cls):
                    t = "\n" if (i < nl - 1 or last_term) else ""
                    lines.append((cl, t))
                if nl and not last_term and cls[-1] == 0:
                    continue  # an unterminated empty last line is no line
                s = Shape("t_lf_%03d" % k, lines, T_LF)
                if len(s.hay) <= max_bytes:
                    out.append(s)
                    k += 1
    k = 0
    for nl in range(1, 4):
        for cls in itertools.product([0, 1], repeat=nl):
            for terms in itertools.product(["\r\n", "\n"], repeat=nl):
                lines = list(zip(cls, terms))
                s = Shape("t_crlf_%03d" % k, lines, T_CRLF)
                if len(s.hay) <= max_bytes:
                    out.append(s)
                    k += 1
    k = 0
    for nl in range(1, 4):
        for cls in itertools.product([0, 1], repeat=nl):
            for last_term in (True, False):
                lines = []
                for i, cl in enumerate(cls):
                    t = "\0" if (i < nl - 1 or last_term) else ""
                    lines.append((cl, t))
                if not last_term and cls[-1] == 0:
                    continue
                s = Shape("t_nul_%03d" % k, lines, T_NUL)
                out.append(s)
                k += 1
    return out


def by_name(name):
    for a in nul_term_shapes():
        if a.name == name:
            return a
    for a, b in nul_shapes():
        if a.name == name:
            return a
        if b.name == name:
            return b
    for n, sp, t in EXTRA_SPECS:
        if n == name:
            return _mk(n, sp, t)
    for s in quick_shapes():
        if s.name == name:
            return s
    for s in all_shapes():
        if s.name == name:
            return s
    raise KeyError(name)


def gen_file(instances):
    """instances: list of (shape, generic_fn_name, unwind).  Returns the Rust
    source of shapes_gen.rs: shape declarations + one #[kani::proof] per
    instance named <fn>__<shape>."""
    out = ["// GENERATED by lib/rgverif/shapes.py -- do not edit\n"]
    seen = set()
    for shs, _fn, _u in instances:
        for sh in (shs if isinstance(shs, tuple) else (shs,)):
            if sh.name not in seen:
                seen.add(sh.name)
                out.append("#[allow(non_camel_case_types)]\n" + sh.decl())
    for shs, fn, unwind in instances:
        tup = shs if isinstance(shs, tuple) else (shs,)
        out.append(
            "#[kani::proof]\n#[kani::unwind({u})]\nfn {fn}__{sn}() {{\n    {fn}::<{tp}>()\n}}\n".format(
                u=unwind, fn=fn, sn=tup[0].name, tp=", ".join(t.name for t in tup)
            )
        )
    return "\n".join(out)


if __name__ == "__main__":
    qs = quick_shapes()
    for s in qs:
        print(s.name, s.descr(), s.lstart, s.clen)
    print(len(all_shapes()), "thorough shapes")
