#!/bin/bash
# verify_seed.sh <seed dir containing patch.diff + demo.diff|demo.sh> <name>
# Confirms in a scratch worktree: (1) patch applies and the full test suite passes with it,
# (2) the demonstration fails with the patch, (3) passes without it.  Writes verify.log next to the patch.
set -u
D=$1; NAME=$2
WT=/tmp/wt/verify_$NAME
LOG=$D/verify.log
: > $LOG
git -C /repo worktree add -q --detach $WT HEAD >>$LOG 2>&1 || { echo "worktree failed" >>$LOG; exit 2; }
cd $WT
export CARGO_NET_OFFLINE=true
export TMPDIR=/tmp/wt/tmp_$NAME; mkdir -p $TMPDIR
res_suite=unknown; res_demo_with=unknown; res_demo_without=unknown
if git apply --check $D/patch.diff >>$LOG 2>&1; then
  git apply $D/patch.diff
  cargo test --workspace --no-fail-fast --offline > $D/verify_suite.log 2>&1
  f=$(grep "test result" $D/verify_suite.log | awk '{f+=$6} END{print f+0}')
  p=$(grep "test result" $D/verify_suite.log | awk '{p+=$4} END{print p+0}')
  if [ "$f" = "0" ] && [ "$p" -ge 1070 ]; then res_suite="pass($p)"; else res_suite="FAIL(p=$p,f=$f)"; fi
  run_demo() {
    if [ -f $D/demo.diff ]; then
      git apply $D/demo.diff >>$LOG 2>&1 || { echo "demo.diff does not apply" >>$LOG; return 3; }
      # run only the new test files / crates touched by demo.diff
      crates=$(grep '^+++ b/crates/' $D/demo.diff | sed -E 's#^\+\+\+ b/crates/([^/]+)/.*#\1#' | sort -u)
      rc=0
      for c in $crates; do
        pkg=$(grep '^name' crates/$c/Cargo.toml | head -1 | sed -E 's/name = "(.*)"/\1/')
        tests=$(grep '^+++ b/crates/'$c'/tests/' $D/demo.diff | sed -E 's#.*/tests/([^.]+)\.rs#\1#')
        if [ -n "$tests" ]; then
          for t in $tests; do cargo test -p $pkg --offline --test $t >> $1 2>&1 || rc=1; done
        else
          cargo test -p $pkg --offline >> $1 2>&1 || rc=1
        fi
      done
      if grep -q '^+++ b/tests/' $D/demo.diff; then cargo test --offline --test integration >> $1 2>&1 || rc=1; fi
      git apply -R $D/demo.diff >>$LOG 2>&1
      return $rc
    elif [ -f $D/demo.sh ]; then
      cargo build --offline >>$LOG 2>&1
      (cd $WT && RG=$WT/target/debug/rg bash $D/demo.sh $WT) >> $1 2>&1
      return $?
    fi
    return 4
  }
  run_demo $D/verify_demo_with.log; rc=$?
  if [ $rc -ne 0 ]; then res_demo_with="fails(as required)"; else res_demo_with="PASSES(unexpected)"; fi
  git apply -R $D/patch.diff
  run_demo $D/verify_demo_without.log; rc=$?
  if [ $rc -eq 0 ]; then res_demo_without="passes(as required)"; else res_demo_without="FAILS(unexpected rc=$rc)"; fi
else
  res_suite="patch does not apply"
fi
echo "suite_with_patch=$res_suite demo_with_patch=$res_demo_with demo_without_patch=$res_demo_without" | tee -a $LOG
cd /; git -C /repo worktree remove --force $WT; rm -rf /tmp/wt/tmp_$NAME
