#!/usr/bin/env python3
"""Regenerate /verif/MANIFEST.json from the tables below (kept next to the code
so that the manifest never drifts from what bin/check actually runs)."""
import json
import os
import subprocess

VERIF = os.path.dirname(os.path.dirname(os.path.abspath(__file__)))

K_TECH = "bounded model checking of the compiled Rust (Kani 0.68/CBMC 6.11, SAT): symbolic match tables, configuration, read fragmentation and stop/error indices; per-loop unwind bounds with unwinding assertions; concrete playback replay"
H_TECH = "SMT (z3, cvc5 cross-check): HIR produced by the real front end encoded as a bounded NFA run, decided for all byte strings up to L per enumerated program; native replay of every sat witness"

CLAIMS = {
    "C01": dict(
        category="model_checking",
        text="A line is reported iff the pattern matches it: (a) searcher side, Kani: the slow line path end-to-end "
             "(SliceByLine::run) delivers exactly the lines {i : hit[i] != invert} for every symbolic per-line answer table "
             "and configuration on each shape, plus without_terminator on fully symbolic bytes; (b) matcher side, z3: for each "
             "enumerated (pattern, options) program, for ALL lines up to L bytes the compiled pattern means what -i/-S/-w/-x/-F/-e "
             "say (H-OPTS), its matches in a buffer are exactly the matches of the stripped lines (H-LOC, the assumption under "
             "which (a)'s table matchers stand for RegexMatcher), and the literal prefilter drops no line (H-PREFILTER). Bounded, "
             "not a proof; the right level because the quantifiers (all lines, all configurations) are exactly what the solver ranges over.",
        note="Bounds: shapes of <=4 lines/<=8 bytes, A,B<=2; L=7 (quick) / 8 (thorough); pattern corpus = curated + repo test "
             "patterns + grammar enumeration + seeded random (sizes in evidence). Automata with >120 core states (big Unicode classes) "
             "are decided over ASCII lines only. Trusted: regex-syntax's parser/translator, memchr (loop model), that regex-automata "
             "implements HIR semantics (checked differentially on every program). Outside: CLI flag mapping (hiargs.rs), \\A/\\z, "
             "-x/-w on NUL-separated records containing \\n. The fast line path is covered by H-LOC (matcher side), the symbolic unit obligation "
             "c01_find_by_line_fast and end-to-end harnesses in which hit patterns/flags are ENUMERATED in-harness (a symbolic hit table does not finish there).",
        technique=K_TECH + " + " + H_TECH,
        design="2 (C03), 3 (C01, C11)"),
    "C03": dict(
        category="model_checking",
        text="Kani decides, for each concrete input shape and every symbolic (per-line hit table, A,B in 0..=2, invert, passthru, "
             "line numbers, stop-on-nonmatch), that the event stream of the real slow-path search equals the grep model written from "
             "the property text: order, uniqueness, context windows, breaks, kinds, 1-based line numbers, offsets, byte count; plus "
             "unit lemmas for lines::{locate,preceding,count,LineStep,without_terminator} over fully symbolic 6-byte buffers.",
        note="Bounds as C01(a). The fast line path (match_by_line_fast, fast_invert, the switch to the slow loop under stop-on-nonmatch) is "
             "run end to end against the same model with hit patterns x invert x (A,B) x stop enumerated in-harness (Confirmed and "
             "all-Candidate reporting), and Core::find_by_line_fast alone with fully symbolic tables; reader strategy is C02 (one reuse "
             "harness runs here too). memchr replaced by a loop model.",
        technique=K_TECH,
        design="2 (C03)"),
    "C11": dict(
        category="other",
        text="For each enumerated (pattern, builder options) program the real RegexMatcherBuilder is run and the HIRs it compiled are "
             "obtained through the verif-hooks feature; z3 then decides for ALL byte strings up to L: no match contains the line "
             "terminator (H-TERM), no match contains a byte declared non-matching (H-NMB), the fast candidate-line regex (H-PREFILTER) "
             "and the inner-literal extractor's output on every pattern (H-EXTRACT) never miss a matching terminator-free line. "
             "unsat = holds for every input within the bound; sat = witness replayed through the real matcher.",
        note="Bounds: L=7/8; corpus sizes in evidence; ASCII-only for big automata and Unicode word boundaries (as the property "
             "allows). Programs are enumerated, inputs are solved. Trusted: regex-syntax; encoder validated against regex-automata each run; "
             "1 query in 50 re-asked of cvc5.",
        technique=H_TECH,
        design="3 (C11)"),
}

CLAIMS.update({
    "C12": dict(
        category="other",
        text="Per enumerated (glob, options) program the real GlobBuilder is run and z3 decides for ALL paths up to L bytes: the "
             "strategy a glob SET would choose for the glob (real MatchStrategy::new through the verif-hooks accessor) means the same "
             "as the glob's own regex (G-STRAT); globs over the simple token subset (literals, ?, *, classes, escapes) mean what the "
             "documented syntax says (G-MEAN, reference compiled independently), and a glob that is one whole alternation {x,y,..} equals the union of its branches compiled as globs of their own (branches beginning with ** excluded). The set's index-merging code is exercised on "
             "solver-chosen paths: one path per satisfiable combination of member verdicts for random and for RELATED member sets "
             "(same strategy, nested prefixes/suffixes), real GlobSet::matches vs each member alone (G-SET). Kani lemmas on fully "
             "symbolic 6-byte paths for pathutil::file_name / file_name_ext (the pieces the strategies look at).",
        note="Bounds: L=7/8 bytes, all byte values (non-UTF-8 included); corpus = repo test globs + all 1-2 token strings + seeded random "
             "3-4 token strings + curated, x option sets. G-SET is concrete execution of the real set on solver-generated inputs (labelled "
             "so in the evidence), not a symbolic encoding of the hash-map/Aho-Corasick dispatch. `**` and `{}` are outside G-MEAN's reference.",
        technique=H_TECH + "; Kani lemmas for the path pieces",
        design="3 (C12), 7.2"),
    "C04": dict(
        category="other",
        text="Per ignore line: the glob ripgrep compiles for it (taken from the real Gitignore through the ignore crate's verif-hooks accessor, so also for lines that match no path within the bound, e.g. a leading blank) "
             "means, for ALL well-formed relative paths up to L bytes over a 9-character path alphabet, what gitignore(5) says "
             "(I-LINE; the reference is compiled from the line's text). Every disagreement is replayed through the real Gitignore "
             "(consulted top-down as the walker does) AND through `git check-ignore --no-index`: ripgrep != git is a violation, "
             "ripgrep == git != reference is a reference bug (inconclusive). Two-line files (last match wins, negation, directory-only) "
             "are executed on ripgrep and git on one solver-chosen path per satisfiable verdict combination x is_dir (I-FILE).",
        note="Compared observable: is the path skipped or not (whitelist vs no-match is not observable from one file). Outside: lines with "
             "three or more consecutive asterisks, `//`, non-ASCII; the on-disk walk, nested ignore files and parent directories (C05/C06); "
             "trusted: git 2.39 as the oracle, regex-syntax.",
        technique=H_TECH + " with git as replay oracle",
        design="3 (C04), 7.2"),
    "C19": dict(
        category="model_checking",
        text="Kani on fully symbolic buffers: grep_matcher's find_cap_ref agrees with the regex library's reference grammar on every "
             "template of <=5 bytes (three harnesses partition the input space: unbraced, braced-plain, braced-any); the Matcher "
             "trait's default find_iter / captures_iter (what replace_all is built on) yield exactly the regex library's successive "
             "matches for every span table over <=4 bytes; printer::util::find_iter_at_in_context yields the pattern's matches in the "
             "line's content for terminated and unterminated lines.",
        note="Template expansion is checked at the reference-grammar level (a 25-line transcription of the pinned regex-automata 0.4.7) in "
             "both tiers (the differential harness against regex_automata::util::interpolate::bytes itself did not finish in 30 min / 13 GB "
             "at 3 template symbols and is not registered). Replacer::replace_all's copying of the text between matches and -U look-ahead window are not covered; the regex "
             "engine's capture semantics are trusted.",
        technique=K_TECH,
        design="2 (C19), 7"),
})

CLAIMS.update({
    "C06": dict(
        category="model_checking",
        text="Skip-decision part only: the decision skeletons of Walk::skip_entry (serial) and Worker::generate_work (parallel) are "
             "extracted from the nightly compiler's MIR dump of the ignore crate (regenerated from /repo on every run): every CFG path "
             "is evaluated symbolically, calls to a fixed list of callees become shared Boolean atoms (ignore verdict on the link / on the "
             "resolved entry -- the atom is versioned by whether the symlink re-stat precedes the call on that path --, is_stdout, size limit "
             "set, is_dir, over size, filter set, filter accepts, follow_links, is_symlink), and z3 decides that for EVERY assignment "
             "the two walkers agree on whether the entry is handed on and that each equals the documented conjunction. A sat "
             "assignment is replayed natively on a real temp tree through both real walkers.",
        note="Callee semantics are atoms (should_skip_entry, skip_filesize, the filter closure are not looked into); I/O error paths and "
             "depth 0 are excluded by assumption. NOT covered (no solver encoding: readdir/stat/symlinks behind FFI): that each entry is "
             "reported exactly once, depth limits, same-file-system, symlink loops, thread counts. A branch the MIR reader cannot "
             "classify makes the check inconclusive (exit 2), never a pass.",
        technique="symbolic path enumeration over rustc MIR + SMT (z3) equivalence of decision formulas; native replay of witnesses",
        design="3 (C06), 7"),
})

CLAIMS.update({
    "C02": dict(
        category="model_checking",
        text="Kani on the real incremental strategy (ReadByLine over LineBufferReader/LineBuffer) with the roll buffer created at 1, 2 "
             "and 4 bytes and read() returning 1, 3 and 2 bytes per call (a roll and a grow at almost every byte): for each input shape, "
             "every per-line hit pattern, invert, (A,B) from a list, stop-on-nonmatch, passthru, and one buffer reused for two searches, the "
             "delivered event stream (kinds, order, offsets, bytes, line numbers, final byte count) equals the grep model, which the slice "
             "strategy is held equal to by C03's harnesses -- so reader == slice. Line numbering is symbolic; hit pattern, flags and "
             "fragmentation are ENUMERATED inside the harness (concrete per iteration): with them symbolic every buffer position is "
             "symbolic and CBMC does not finish on 2-line inputs (measured).",
        note="Bounds: shapes of <=3 lines/<=7 bytes incl. blank lines, CRLF, NUL-terminated records with \\n inside, unterminated last line; "
             "(capacity, read size) in {(1,1),(2,3),(4,2)}; (A,B) in {(0,0),(1,1),(1,0),(0,1)}. NOT covered: mmap (FFI), multi-line fallback "
             "for non-multi-line patterns, heap limits, Interrupted reads in non-error runs, inputs larger than a few bytes (so buffer "
             "growth beyond 8 bytes). The solver's share is small here (line numbering + assertions); stated as such in the evidence.",
        technique=K_TECH,
        design="2 (C02), 7.4"),
    "C14": dict(
        category="model_checking",
        text="Kani on the real searcher with binary detection: slice strategy with symbolic hit tables and configuration (quit: begin, one "
             "binary notice at the first NUL, finish, nothing else when the NUL is in the examined portion; convert: equals the search of the "
             "input with NULs replaced + one notice), and the reader strategy with enumerated hit patterns/contexts/fragmentation (quit: a prefix "
             "of the search of the input before the first NUL, no NUL reaches the sink, notice offset and finish offset exact; convert: equals "
             "the search of the converted input); replace_bytes on fully symbolic bytes.",
        note="Bounds: 6 NUL-bearing shapes of <=4 lines/<=8 bytes and their converted twins; reader (capacity, read) in {(1,1),(4,2),(2,3)}. "
             "Quit through the reader is specified as PREFIX (bytes before the NUL inside the same buffer fill are legitimately not searched). "
             "Outside: the 64 KiB examination window of the slice strategy (inputs here are smaller), mmap, multi-line, the CLI's binary "
             "policy (explicit vs implicit files), printer messages.",
        technique=K_TECH,
        design="2 (C14), 7.4"),
    "C16": dict(
        category="fault_enumeration",
        text="Kani on the real searcher with an instrumented sink/reader: slice strategy with symbolic hit table, configuration and a SYMBOLIC "
             "index k at which the sink refuses or fails; fast line path, reader strategy and multi-line strategy with k, hit pattern / span "
             "table and configuration enumerated in-harness; reader failing (Other and Interrupted) at every read index j. Asserted: delivered "
             "events are exactly the first k+1 events of the uninterrupted stream (the grep model, to which the uninterrupted run is held "
             "equal by C03/C02/C13), then exactly one finish after a stop, nothing and no finish after an error, the error is returned.",
        note="Bounds: shapes of <=4 lines; (A,B)<=1 symbolic on the slice path, fixed (0,1)/(1,0) on the 4-line shape (separator ahead of "
             "before-context); reader capacity 1 with 1-byte reads. NOT covered: the printers' max-count logic beyond the summary printer "
             "(C10 harness has max_matches symbolic), binary-notice refusal, stops inside search_reader's multi-line fill loop.",
        technique=K_TECH,
        design="2 (C16), 7.4"),
    "C10": dict(
        category="model_checking",
        text="Kani, end to end over the REAL searcher (slice strategy, slow line path) and the REAL summary printer sink (Quiet mode with "
             "--stats, max_matches in {None,1,2} symbolic) with a symbolic per-line span table as the pattern: match_count and "
             "stats.matched_lines equal the number of reported lines (matching, or non-matching under invert, cut at the limit); "
             "stats.matches equals the number of successive matches INSIDE the reported lines -- the enumeration -o and the JSON printer's "
             "submatches are built on (0 under invert); searches, searches_with_match, bytes_searched. Plus lemmas on the shared "
             "re-discovery function printer::util::find_iter_at_in_context (symbolic span tables; terminated/unterminated/second line) and "
             "on Matcher::find_iter/captures_iter.",
        note="Bounds: 'ax\\nby\\n' and 'ax\\n\\nc' (2-byte lines so a line can hold several matches, empty line, unterminated last line). "
             "Covered modes: the counters behind --count/--count-matches/-q/-l/--files-without-match with --stats. NOT covered: the Standard "
             "and JSON printers' own sinks (formatting / serde are out of CBMC's reach here; they share find_iter_at_in_context, which is "
             "covered), multi-line mode, exit status, cross-file totals.",
        technique=K_TECH,
        design="2 (C10), 7.4"),
    "C13": dict(
        category="model_checking",
        text="Kani on the real multi-line strategy (MultiLine::run) with the pattern given as a span table over absolute offsets "
             "(E[s] = end of the match starting at s): for EVERY span table of the input (<=3 bytes) / every table with <=2 match "
             "starts (4 bytes), enumerated in-harness, x {plain, contexts (1,1), inverted with and without contexts, passthru}, the "
             "delivered events equal the model written from the property: the lines covered by the successive leftmost matches, "
             "adjacent matches merged into one block, context/separators/numbering as in line mode, inverted = the complement. "
             "Look-behind: additionally every alternative answer at a resumption point taken as start-of-haystack; the result must "
             "follow the whole-input table. History: search_reader in multi-line mode run twice on one Searcher (reused buffer). "
             "Line numbering is symbolic; tables and configurations are enumerated (a symbolic table does not terminate).",
        note="Bounds: inputs 'a', 'a\\n', '\\n', 'a\\nb', 'a\\nb\\n' in the quick tier (3-line inputs in the thorough tier); tables with "
             "<=2 match starts on 4-byte inputs. Known finding (inverted search resumes at the end of the previous match's LINES) is "
             "reported as KNOWN-FINDING; the harness records it and keeps exploring the remaining tables. Outside: which spans a "
             "real regex produces (C11/C01 H-obligations), --multiline-dotall, -U over mmap/CLI, heap limits, the printers' "
             "handling of multi-line blocks.",
        technique=K_TECH,
        design="2 (C13), 7.4"),
    "C09": dict(
        category="other",
        text="Pieces only. (1) Searcher half, Kani: in every C03/C02/C13/C14 harness the recording sink compares the bytes of each delivered "
             "match/context line with the input at the reported absolute offset and checks the reported line number -- 'delivered lines and "
             "coordinates are the input's own' holds for every explored run. (2) JSON half, Kani on fully symbolic bytes: Data::from_bytes chooses Text iff the bytes are valid UTF-8 (independent validator) "
             "and preserves them. (3) trim_line_terminator removes exactly the terminator of a line anywhere in a fully symbolic buffer. (4) submatch spans: find_iter_at_in_context lemmas (shared with C10).",
        note="NOT covered: the Standard printer's formatting (column, separators, --vimgrep per-match attribution, CRLF trimming in the "
             "multi-line slow printers) and the JSON message framing through serde_json: symbolic execution of that code (fmt, termcolor, "
             "serde) did not come within reach of CBMC. Changes confined to those printer paths are not detected by this check.",
        technique=K_TECH,
        design="2 (C09), 7.4"),
})

NOT_APPLICABLE = {
    "C05": "the precedence logic lives in ignore::dir::Ignore::matched_ignore / matched_dir_entry: loops over parent Ignore nodes behind Arc, seven compiled Gitignore matchers per node and a DirEntry that only a real directory walk can construct; Kani cannot build these states (filesystem, FFI) and the MIR path enumeration of Engine M needs loop-free functions; the only encodable piece (Match::or chaining) restates itself",
    "C07": "quantifies over thread interleavings of crossbeam deques/atomics; Kani has no concurrency model and no available solver-based engine ingests this Rust; a hand model would not be the real code",
    "C08": "whole-process property over OS scheduling, stdout locking and channels; nothing in it is a bounded computation a solver can be given",
    "C15": "exit status under OS fault sequences (unreadable files, closed pipes): behind FFI/I/O; the only encodable piece restates itself",
    "C17": "content of the property is encoding_rs/encoding_rs_io decoding under fragmentation (SIMD + table decoders); the spike did not terminate and bounding it leaves nothing of the claim",
    "C18": "child processes, pipes and exit statuses cannot be constructed or stubbed symbolically",
}
PENDING = "check under construction in this round (see DESIGN.md for the plan); not claimed until its quick command passes on the unchanged tree"


def main():
    props = [json.loads(l)["id"] for l in open(os.path.join(VERIF, "properties.jsonl"))]
    checks = []
    for pid in props:
        if pid not in CLAIMS:
            continue
        c = CLAIMS[pid]
        checks.append({
            "property_id": pid,
            "quick_cmd": "bin/check %s --tier quick" % pid,
            "thorough_cmd": "bin/check %s --tier thorough" % pid,
            "evidence_file": "/verif/evidence/%s.json" % pid,
            "replay_cmd_template": "bin/check %s --replay {path}" % pid,
            "engine": "rgverif",
            "level_claimed": {"category": c["category"], "text": c["text"], "design_ref": "DESIGN.md section " + c["design"]},
            "level_note": c["note"],
            "technique": c["technique"],
        })
    na = []
    for pid in props:
        if pid in CLAIMS:
            continue
        na.append({"property_id": pid, "reason": NOT_APPLICABLE.get(pid, PENDING)})
    repo_commits = subprocess.run(["git", "-C", "/repo", "log", "--format=%h %s", "--grep=^verif hooks"],
                                  stdout=subprocess.PIPE, text=True).stdout.strip().splitlines()
    m = {
        "version": 1,
        "setup_cmd": "python3 lib/mk_memchr_model.py /verif/.cache/memchr-kani",
        "hooks": {
            "guard": "cfg(kani) (set only by kani-compiler) for the include points; cargo feature `verif-hooks` (off by default) for grep-regex's HIR accessors, globset's strategy accessor and ignore's Gitignore::verif_globs",
            "enable": "cargo kani (sets cfg(kani)); rgsmt depends on grep-regex, globset and ignore with features=[\"verif-hooks\"]; both build a scratch copy of /repo's working tree",
            "baseline_off_cmd": "cd /repo && cargo test --workspace --no-fail-fast --offline",
            "source_commits": [c.split()[0] for c in repo_commits],
            "add_only": True,
        },
        "engines": [
            {"name": "K: Kani harnesses", "path": "/verif/kani", "serves_properties": ["C01", "C02", "C03", "C13", "C14", "C16", "C19", "C12", "C09", "C10"],
             "kind_free_text": "Kani 0.68 / CBMC 6.11 over the crates' MIR from a scratch copy of /repo; harness sources included through cfg(kani) hook lines; memchr replaced by a loop model"},
            {"name": "H: rgsmt", "path": "/verif/smt", "serves_properties": ["C01", "C11", "C12", "C04"],
             "kind_free_text": "Rust program linking the real ripgrep crates: HIR -> NFA -> SMT-LIB2, z3 (cvc5 cross-check), native replay"},
        ],
        "checks": checks,
        "not_applicable": na,
        "notes": "bin/check <ID> exits 0 (held on everything explored), 1 (VIOLATION line, reproduced natively), 2 (inconclusive: timeout, "
                 "unwinding bound, non-reproducing counterexample; never reported as a pass). Known findings: /verif/known-findings.json.",
    }
    json.dump(m, open(os.path.join(VERIF, "MANIFEST.json"), "w"), indent=1)
    print("MANIFEST.json: %d checks, %d not applicable/pending" % (len(checks), len(na)))


if __name__ == "__main__":
    main()
