#!/usr/bin/env python3
"""Print the seeded-change detection table (markdown) from seeded/*/meta.json and
seeded/*/detection.<PROP>.log, and store the outcome in each meta.json."""
import glob
import json
import os
import re

V = os.path.dirname(os.path.dirname(os.path.abspath(__file__)))
rows = []
for d in sorted(glob.glob(os.path.join(V, "seeded", "*"))):
    mp = os.path.join(d, "meta.json")
    if not os.path.exists(mp):
        continue
    meta = json.load(open(mp))
    name = os.path.basename(d)
    det = {}
    for lg in sorted(glob.glob(os.path.join(d, "detection.*.log"))):
        prop = os.path.basename(lg).split(".")[1]
        txt = open(lg).read()
        m = re.search(r"exit=(\d+) wall=(\d+)s", txt)
        cmd = re.search(r"^cmd: (.*)$", txt, re.M)
        viol = re.findall(r"^VIOLATION property=\S+ replay=\S*?/C\d+-([^/\s]+)\.json", txt, re.M)
        failed = re.findall(r"^  failed: (.*?) @", txt, re.M)
        det[prop] = {
            "exit": int(m.group(1)) if m else None,
            "wall_s": int(m.group(2)) if m else None,
            "cmd": cmd.group(1) if cmd else None,
            "violating_obligations": sorted(set(viol))[:6],
            "failed_assertions": sorted(set(failed))[:4],
            "detected": bool(m and m.group(1) == "1" and viol),
        }
    meta["detection"] = det
    json.dump(meta, open(mp, "w"), indent=1)
    rows.append((name, meta, det))

print("| seeded change | property | what it breaks | caught by (check: obligations) | outcome |")
print("|---|---|---|---|---|")
for name, meta, det in rows:
    what = meta.get("summary", "")[:150].replace("|", "\\|")
    if not det:
        print("| %s | %s | %s | — | not run |" % (name, meta.get("property"), what))
        continue
    for prop, dd in det.items():
        obl = ", ".join(o[-45:] for o in dd["violating_obligations"][:3]) or "—"
        out = "DETECTED (exit 1, %ss)" % dd["wall_s"] if dd["detected"] else ("missed (exit %s)" % dd["exit"])
        print("| %s | %s | %s | %s: %s | %s |" % (name, meta.get("property"), what, prop, obl.replace("|", "\\|"), out))
