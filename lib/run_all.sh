#!/bin/bash
# run every claimed check's quick command, one after the other; log exit codes and wall time
cd /verif
: > /tmp/run_all.log
for p in "$@"; do
  t0=$(date +%s)
  bin/check $p --tier quick > /tmp/run_all.$p.log 2>&1
  rc=$?
  t1=$(date +%s)
  echo "$p exit=$rc wall=$((t1-t0))s $(tail -1 /tmp/run_all.$p.log | cut -c1-160)" >> /tmp/run_all.log
done
echo ALLDONE >> /tmp/run_all.log
