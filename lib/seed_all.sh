#!/bin/bash
# seed_all.sh <seed> [<seed> ...]: run each seed against the FULL quick check of its property, one after the other
cd /verif
for s in "$@"; do
  prop=$(python3 -c "import json;print(json.load(open('/verif/seeded/$s/meta.json'))['property'])")
  lib/seed_matrix.sh $s $prop
done
