#!/usr/bin/env python3
"""Copy verified seeded defects from /tmp/seeded/<ID>/<name>/ into /verif/seeded/<name>/."""
import json, os, shutil, sys, re
SRC = "/tmp/seeded"
DST = "/verif/seeded"
for pid in sorted(os.listdir(SRC)):
    d = os.path.join(SRC, pid)
    if not os.path.isdir(d):
        continue
    for name in sorted(os.listdir(d)):
        sd = os.path.join(d, name)
        vl = os.path.join(sd, "verify.log")
        if not (os.path.isdir(sd) and os.path.exists(vl)):
            continue
        lines = open(vl).read().strip().splitlines()
        if not lines:
            continue
        last = lines[-1]
        ok = ("suite_with_patch=pass" in last and "demo_with_patch=fails" in last and "demo_without_patch=passes" in last)
        if not ok:
            print("SKIP (not verified):", name, last)
            continue
        out = os.path.join(DST, name)
        os.makedirs(out, exist_ok=True)
        for f in ("patch.diff", "demo.diff", "demo.sh", "README.txt"):
            if os.path.exists(os.path.join(sd, f)):
                shutil.copy(os.path.join(sd, f), os.path.join(out, f))
        meta = {}
        try:
            meta = json.load(open(os.path.join(sd, "meta.json")))
        except Exception:
            pass
        meta["property"] = pid
        meta["verified_by_framework_author"] = {
            "how": "lib/verify_seed.sh: fresh worktree of /repo HEAD; patch applied -> cargo test --workspace --no-fail-fast --offline; "
                   "demo applied and run with the patch (must fail) and without it (must pass)",
            "result": last,
        }
        old = {}
        if os.path.exists(os.path.join(out, "meta.json")):
            try:
                old = json.load(open(os.path.join(out, "meta.json")))
            except Exception:
                old = {}
        if "detection" in old:
            meta["detection"] = old["detection"]
        json.dump(meta, open(os.path.join(out, "meta.json"), "w"), indent=1)
        print("imported", name)
