// C10 -- the JSON printer's per-line submatch lists agree with the pattern's
// matches, END TO END over the real searcher (slice strategy, slow line path)
// and the real JSONSink (serde_json serialisation included, into a discarding
// writer): stats.matches() -- the sum of the submatch counts of the emitted
// `match` messages -- equals the number of successive matches inside the
// reported lines (what --count-matches / -o / the summary printer count),
// stats.matched_lines() / match_count equal the number of reported lines.
// Child module of grep_printer::json.

include!(concat!(env!("RG_VERIF_KANI_DIR"), "/printer/linetables.rs"));

fn check_json(hay: &'static [u8], invert: bool) {
    let m = LineTables::any(hay);
    let mut printer = JSONBuilder::new().build(NoSink);
    let mut searcher = grep_searcher::SearcherBuilder::new()
        .invert_match(invert)
        .line_number(true)
        .bom_sniffing(false)
        .build();
    let (count, stats) = {
        let mut sink = printer.sink(&m);
        let r = searcher.search_slice(&m, hay, &mut sink);
        assert!(r.is_ok(), "search returns Ok");
        (sink.match_count, sink.stats.clone())
    };
    let mut lines = 0u64;
    let mut matches = 0u64;
    let mut k = 0;
    while k < MAXL {
        if k < m.nl {
            let c = m.count_in_line(k);
            if (c > 0) != invert {
                lines += 1;
                matches += c as u64;
            }
        }
        k += 1;
    }
    assert!(count == lines, "JSON: one match message per reported line");
    assert!(stats.matched_lines() == lines, "JSON stats: matched lines equals the number of reported lines");
    assert!(stats.matches() == matches, "JSON: the submatches of the match messages are the pattern's matches inside the reported lines");
    kani::cover!(lines >= 2 && (invert || matches > lines), "reach-end");
    std::mem::forget(searcher);
    std::mem::forget(printer);
}

#[kani::proof]
#[kani::stub(std::time::Instant::now, fixed_instant)]
#[kani::unwind(12)]
fn c10_json_submatches() {
    check_json(b"ax\nby\n", false)
}

#[kani::proof]
#[kani::stub(std::time::Instant::now, fixed_instant)]
#[kani::unwind(12)]
fn c10_json_submatches_unterminated() {
    check_json(b"ax\n\nc", false)
}
