// shared by summary.rs and json.rs (included into both harness modules):
// symbolic per-line span tables as the pattern, a discarding writer, a fixed clock
use grep_matcher::Match;

const NONE: usize = usize::MAX;
const MAXL: usize = 3;
const MAXC: usize = 2;
const MAXM: usize = MAXC + 3;

#[derive(Debug)]
struct FatErr([u64; 4]);
impl std::fmt::Display for FatErr {
    fn fmt(&self, _f: &mut std::fmt::Formatter<'_>) -> std::fmt::Result {
        Ok(())
    }
}

/// The haystack's lines (content of line k starts with the letter 'a'+k, or is
/// empty) and, per line, a symbolic table "a match starting at content offset
/// s ends at e[k][s]" (matches never contain the terminator).
struct LineTables {
    nl: usize,
    lstart: [usize; MAXL],
    clen: [usize; MAXL],
    e: [[usize; MAXC + 1]; MAXL],
}

impl LineTables {
    fn any(hay: &'static [u8]) -> LineTables {
        let mut t = LineTables { nl: 0, lstart: [0; MAXL], clen: [0; MAXL], e: [[NONE; MAXC + 1]; MAXL] };
        let mut i = 0;
        let mut start = 0;
        while i <= hay.len() {
            if i == hay.len() || hay[i] == b'\n' {
                if i > start || i < hay.len() {
                    t.lstart[t.nl] = start;
                    t.clen[t.nl] = i - start;
                    t.nl += 1;
                }
                start = i + 1;
            }
            i += 1;
        }
        let mut first_empty = NONE;
        let mut k = 0;
        while k < MAXL {
            if k < t.nl {
                let mut s = 0;
                while s <= MAXC {
                    if s <= t.clen[k] {
                        let has: bool = kani::any();
                        if has {
                            let end: usize = kani::any();
                            kani::assume(end >= s && end <= t.clen[k]);
                            t.e[k][s] = end;
                        }
                    }
                    s += 1;
                }
                if t.clen[k] == 0 {
                    // lines with identical (empty) content get identical answers
                    if first_empty == NONE {
                        first_empty = k;
                    } else {
                        kani::assume(t.e[k][0] == t.e[first_empty][0]);
                    }
                }
            }
            k += 1;
        }
        t
    }

    fn first_in_line(&self, k: usize, from: usize, upto: usize) -> Option<(usize, usize)> {
        let mut s = 0;
        let mut found: Option<(usize, usize)> = None;
        while s <= MAXC {
            if s >= from && s <= self.clen[k] && found.is_none() && self.e[k][s] != NONE && self.e[k][s] <= upto {
                found = Some((s, self.e[k][s]));
            }
            s += 1;
        }
        found
    }

    /// the regex library's iteration over line k's content: number of matches
    fn count_in_line(&self, k: usize) -> usize {
        let n = self.clen[k];
        let mut cnt = 0usize;
        let mut last_end = 0usize;
        let mut last_match_end: usize = NONE;
        let mut guard = 0;
        while guard < 2 * MAXC + 4 {
            guard += 1;
            if last_end > n {
                break;
            }
            let mut mm = match self.first_in_line(k, last_end, n) {
                None => break,
                Some(x) => x,
            };
            if mm.0 == mm.1 && mm.1 == last_match_end {
                if last_end + 1 > n {
                    break;
                }
                mm = match self.first_in_line(k, last_end + 1, n) {
                    None => break,
                    Some(x) => x,
                };
            }
            last_end = mm.1;
            last_match_end = mm.1;
            cnt += 1;
        }
        cnt
    }
}

impl Matcher for LineTables {
    type Captures = grep_matcher::NoCaptures;
    type Error = FatErr;

    fn find_at(&self, h: &[u8], at: usize) -> Result<Option<Match>, FatErr> {
        let n = h.len();
        // Which line is being asked about?  The searcher hands over one line's
        // content (offsets relative to the line); the printer hands over the
        // buffer up to the end of the reported line's content with `at` inside
        // that line (absolute offsets).  A slice that starts with the letter
        // of line k > 0 is line k; everything else is a prefix of the buffer.
        let mut k = NONE;
        let mut base = 0usize;
        let idx = if n > 0 { h[0].wrapping_sub(b'a') as usize } else { NONE };
        if n > 0 && idx > 0 && idx < self.nl {
            k = idx;
        } else {
            let mut j = 0;
            while j < MAXL {
                if j < self.nl && self.lstart[j] <= at {
                    k = j;
                    base = self.lstart[j];
                }
                j += 1;
            }
            if n == 0 {
                // an empty slice: some empty line (all share one table)
                let mut j = 0;
                k = NONE;
                while j < MAXL {
                    if j < self.nl && self.clen[j] == 0 && k == NONE {
                        k = j;
                    }
                    j += 1;
                }
                base = 0;
            }
        }
        if k == NONE || at < base || n < base {
            return Ok(None);
        }
        match self.first_in_line(k, at - base, n - base) {
            None => Ok(None),
            Some((s, e)) => Ok(Some(Match::new(base + s, base + e))),
        }
    }

    fn new_captures(&self) -> Result<grep_matcher::NoCaptures, FatErr> {
        Ok(grep_matcher::NoCaptures::new())
    }
}

fn fixed_instant() -> Instant {
    // Instant::now() is a foreign call; time is not part of the claim
    unsafe { std::mem::zeroed() }
}

/// writer that discards (the counters are read from the sink's own state)
struct NoSink;
impl io::Write for NoSink {
    fn write(&mut self, b: &[u8]) -> io::Result<usize> {
        Ok(b.len())
    }
    fn flush(&mut self) -> io::Result<()> {
        Ok(())
    }
}

