// C10 / C19 -- match re-discovery inside a reported line
// (printer/util.rs find_iter_at_in_context: what --count-matches, -o, --json
// submatches, --column and the replacement's match spans are all built on)
// yields exactly the successive matches of the pattern in the line's content.
// Child module of grep_printer::util.

const HN: usize = 4;
const NONE: usize = usize::MAX;
const MAXM: usize = HN + 2;

#[derive(Debug)]
struct FatErr([u64; 4]);
impl std::fmt::Display for FatErr {
    fn fmt(&self, _f: &mut std::fmt::Formatter<'_>) -> std::fmt::Result {
        Ok(())
    }
}

/// symbolic span table over absolute buffer offsets 0..=HN
struct SpanMatcher {
    e: [usize; HN + 1],
}

impl SpanMatcher {
    /// matches may start anywhere in lo..=hi and end anywhere up to hi
    fn any(lo: usize, hi: usize) -> SpanMatcher {
        let mut e = [NONE; HN + 1];
        let mut s = 0;
        while s <= HN {
            if s >= lo && s <= hi {
                let has: bool = kani::any();
                if has {
                    let end: usize = kani::any();
                    kani::assume(end >= s && end <= hi);
                    e[s] = end;
                }
            }
            s += 1;
        }
        SpanMatcher { e }
    }

    fn first_from(&self, at: usize, upto: usize) -> Option<Match> {
        let mut s = 0;
        let mut found: Option<Match> = None;
        while s <= HN {
            if s >= at && s <= upto && found.is_none() && self.e[s] != NONE {
                found = Some(Match::new(s, self.e[s]));
            }
            s += 1;
        }
        found
    }
}

impl Matcher for SpanMatcher {
    type Captures = grep_matcher::NoCaptures;
    type Error = FatErr;
    fn find_at(&self, h: &[u8], at: usize) -> Result<Option<Match>, FatErr> {
        // a real matcher cannot report anything beyond the haystack it is given
        Ok(self.first_from(at, h.len()))
    }
    fn new_captures(&self) -> Result<grep_matcher::NoCaptures, FatErr> {
        Ok(grep_matcher::NoCaptures::new())
    }
}

/// reference: the regex library's iteration over haystack[..n] from `at`
fn reference(m: &SpanMatcher, at: usize, n: usize) -> ([(usize, usize); MAXM], usize) {
    let mut out = [(0usize, 0usize); MAXM];
    let mut k = 0usize;
    let mut last_end = at;
    let mut last_match_end: usize = NONE;
    let mut guard = 0;
    while guard < 2 * HN + 4 {
        guard += 1;
        if last_end > n {
            break;
        }
        let mut mm = match m.first_from(last_end, n) {
            None => break,
            Some(x) => x,
        };
        if mm.start() == mm.end() && mm.end() == last_match_end {
            if last_end + 1 > n {
                break;
            }
            mm = match m.first_from(last_end + 1, n) {
                None => break,
                Some(x) => x,
            };
        }
        last_end = mm.end();
        last_match_end = mm.end();
        if k < MAXM {
            out[k] = (mm.start(), mm.end());
        }
        k += 1;
    }
    (out, k)
}

/// Single-line search.  `buf`: a concrete buffer holding the reported line at
/// `range` (possibly after an earlier line); the line's content is
/// buf[range.start..content_end].  The matches reported must be exactly the
/// reference iteration over the content.
fn check_line(buf: &'static [u8], start: usize, end: usize, content_end: usize) {
    let searcher = grep_searcher::SearcherBuilder::new().build();
    let m = SpanMatcher::any(start, content_end);
    let mut got = [(0usize, 0usize); MAXM];
    let mut k = 0usize;
    let r = find_iter_at_in_context(&searcher, &m, buf, start..end, |x| {
        if k < MAXM {
            got[k] = (x.start(), x.end());
        }
        k += 1;
        true
    });
    assert!(r.is_ok());
    let (want, wk) = reference(&m, start, content_end);
    if k + 1 == wk && want[wk - 1] == (content_end, content_end) && content_end == end {
        assert!(false, "the empty match at the end of an unterminated last line is reported like any other match");
    }
    assert!(k == wk, "as many matches as the pattern has in the line's content");
    let mut i = 0;
    while i < MAXM {
        if i < wk {
            assert!(got[i].0 == want[i].0 && got[i].1 == want[i].1, "the matches are the pattern's successive matches in the line's content");
        }
        i += 1;
    }
    kani::cover!(wk >= 2, "reach-end");
    std::mem::forget(searcher);
}

#[kani::proof]
#[kani::unwind(14)]
fn c10_find_iter_terminated() {
    check_line(b"ab\n", 0, 3, 2)
}

#[kani::proof]
#[kani::unwind(14)]
fn c10_find_iter_second_line() {
    check_line(b"a\nb\n", 2, 4, 3)
}

#[kani::proof]
#[kani::unwind(14)]
fn c10_find_iter_unterminated() {
    check_line(b"ab", 0, 2, 2)
}

#[kani::proof]
#[kani::unwind(14)]
fn c10_find_iter_unterminated_second() {
    check_line(b"a\nb", 2, 3, 3)
}

/// C09: trim_line_terminator removes exactly the line's terminator (`\n`, or
/// `\r\n` in CRLF mode) and nothing else, for a line anywhere in a fully
/// symbolic buffer of TN bytes (what keeps a printed line byte-for-byte the
/// input's own in the printers that print line by line).
const TN: usize = 5;

fn check_trim(crlf: bool) {
    let buf: [u8; TN] = kani::any();
    let n: usize = kani::any();
    kani::assume(n <= TN);
    let start: usize = kani::any();
    let end: usize = kani::any();
    kani::assume(start < end && end <= n);
    // the range is a line of the buffer: it starts after a terminator (or at
    // 0) and contains no `\n` before its last byte
    kani::assume(start == 0 || buf[start - 1] == b'\n');
    let mut i = 0;
    while i < TN {
        if i >= start && i + 1 < end {
            kani::assume(buf[i] != b'\n');
        }
        i += 1;
    }
    let term = if crlf { grep_matcher::LineTerminator::crlf() } else { grep_matcher::LineTerminator::byte(b'\n') };
    let searcher = grep_searcher::SearcherBuilder::new().line_terminator(term).build();
    let mut line = Match::new(start, end);
    trim_line_terminator(&searcher, &buf[..n], &mut line);
    let mut want = end;
    if buf[end - 1] == b'\n' {
        want = end - 1;
        if crlf && want > start && buf[want - 1] == b'\r' {
            want -= 1;
        }
    }
    assert!(line.start() == start, "the start of the line is kept");
    assert!(line.end() == want, "exactly the line terminator is trimmed");
    kani::cover!(start > 0 && want + 2 == end, "reach-end");
    std::mem::forget(searcher);
}

#[kani::proof]
#[kani::unwind(8)]
fn c09_trim_line_terminator_crlf() {
    check_trim(true)
}

#[kani::proof]
#[kani::unwind(8)]
fn c09_trim_line_terminator_lf() {
    check_trim_lf()
}

fn check_trim_lf() {
    let buf: [u8; TN] = kani::any();
    let n: usize = kani::any();
    kani::assume(n <= TN);
    let start: usize = kani::any();
    let end: usize = kani::any();
    kani::assume(start < end && end <= n);
    let searcher = grep_searcher::SearcherBuilder::new().build();
    let mut line = Match::new(start, end);
    trim_line_terminator(&searcher, &buf[..n], &mut line);
    let want = if buf[end - 1] == b'\n' { end - 1 } else { end };
    assert!(line.start() == start && line.end() == want, "exactly the line terminator is trimmed");
    kani::cover!(start > 0 && want + 1 == end, "reach-end");
    std::mem::forget(searcher);
}
