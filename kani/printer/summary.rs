// C10 -- the summary printer's counters agree with the pattern's matches
// (what --count, --count-matches, -q/-l with --stats report), END TO END over
// the real searcher (slice strategy, slow line path) and the real SummarySink:
//   match_count           == number of reported lines (matching, or under
//                            invert non-matching), cut at max_matches
//   stats.matched_lines() == the same
//   stats.matches()       == total number of matches INSIDE the reported lines
//                            (the successive matches of the pattern in each
//                            line's content -- what -o / JSON submatches list;
//                            0 for inverted searches)
//   stats.searches / searches_with_match / bytes_searched
// The pattern is a symbolic per-line span table (every set of match spans
// inside each line's content).  Child module of grep_printer::summary.

include!(concat!(env!("RG_VERIF_KANI_DIR"), "/printer/linetables.rs"));

fn check_summary(hay: &'static [u8], kind: SummaryKind, invert: bool) {
    let m = LineTables::any(hay);
    let limit_raw: u8 = kani::any();
    kani::assume(limit_raw <= 2);
    // 0: no limit; else max_matches = Some(limit_raw)
    let limit: Option<u64> = if limit_raw == 0 { None } else { Some(limit_raw as u64) };
    let mut printer = SummaryBuilder::new()
        .kind(kind)
        .stats(true)
        .max_matches(limit)
        .build_no_color(NoSink);
    let mut searcher = grep_searcher::SearcherBuilder::new()
        .invert_match(invert)
        .line_number(false)
        .bom_sniffing(false)
        .build();
    let (count, stats) = {
        let mut sink = printer.sink(&m);
        let r = searcher.search_slice(&m, hay, &mut sink);
        assert!(r.is_ok(), "search returns Ok");
        (sink.match_count, sink.stats.clone().unwrap())
    };
    // model
    let mut lines = 0u64;
    let mut matches = 0u64;
    let mut k = 0;
    while k < MAXL {
        if k < m.nl {
            let c = m.count_in_line(k);
            let reported = (c > 0) != invert;
            let open = match limit {
                None => true,
                Some(l) => lines < l,
            };
            if reported && open {
                lines += 1;
                matches += c as u64;
            }
        }
        k += 1;
    }
    assert!(count == lines, "count equals the number of reported lines");
    assert!(stats.matched_lines() == lines, "stats: matched lines equals the number of reported lines");
    assert!(stats.matches() == matches, "stats: matches equals the number of matches inside the reported lines");
    assert!(stats.searches() == 1, "stats: one search");
    assert!(stats.searches_with_match() == (if lines > 0 { 1 } else { 0 }), "stats: searches with match");
    if limit.is_none() {
        assert!(stats.bytes_searched() == hay.len() as u64, "stats: bytes searched");
    }
    kani::cover!(lines >= 2 && (invert || matches > lines), "reach-end");
    std::mem::forget(searcher);
    std::mem::forget(printer);
}

#[kani::proof]
#[kani::stub(std::time::Instant::now, fixed_instant)]
#[kani::unwind(12)]
fn c10_summary_quiet_stats() {
    check_summary(b"ax\nby\n", SummaryKind::Quiet, false)
}

#[kani::proof]
#[kani::stub(std::time::Instant::now, fixed_instant)]
#[kani::unwind(12)]
fn c10_summary_quiet_stats_invert() {
    check_summary(b"ax\nby\n", SummaryKind::Quiet, true)
}

#[kani::proof]
#[kani::stub(std::time::Instant::now, fixed_instant)]
#[kani::unwind(12)]
fn c10_summary_quiet_stats_unterminated() {
    check_summary(b"ax\n\nc", SummaryKind::Quiet, false)
}
