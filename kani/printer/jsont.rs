// C09 -- JSON output is lossless: text when the bytes are valid UTF-8, base64
// (RFC 4648 standard alphabet, padded) of exactly the bytes otherwise.
// Child module of grep_printer::jsont; fully symbolic byte strings.

const N: usize = 4;

fn b64_val(c: u8) -> u8 {
    match c {
        b'A'..=b'Z' => c - b'A',
        b'a'..=b'z' => c - b'a' + 26,
        b'0'..=b'9' => c - b'0' + 52,
        b'+' => 62,
        b'/' => 63,
        _ => 255,
    }
}

/// base64_standard(b) decodes (reference decoder, RFC 4648) to exactly b, has
/// length 4*ceil(n/3) and is padded with '='.
#[kani::proof]
#[kani::unwind(10)]
fn c09_base64_roundtrip() {
    let buf: [u8; N] = kani::any();
    let len: usize = kani::any();
    kani::assume(len <= N);
    let enc = base64_standard(&buf[..len]);
    let e = enc.as_bytes();
    assert!(e.len() == 4 * ((len + 2) / 3), "base64 length");
    // decode
    let mut out = [0u8; N + 3];
    let mut n = 0usize;
    let mut g = 0;
    while g < 2 {
        if 4 * g < e.len() {
            let c0 = e[4 * g];
            let c1 = e[4 * g + 1];
            let c2 = e[4 * g + 2];
            let c3 = e[4 * g + 3];
            let (v0, v1) = (b64_val(c0), b64_val(c1));
            assert!(v0 < 64 && v1 < 64, "alphabet characters");
            out[n] = (v0 << 2) | (v1 >> 4);
            n += 1;
            if c2 != b'=' {
                let v2 = b64_val(c2);
                assert!(v2 < 64, "alphabet characters");
                out[n] = (v1 << 4) | (v2 >> 2);
                n += 1;
                if c3 != b'=' {
                    let v3 = b64_val(c3);
                    assert!(v3 < 64, "alphabet characters");
                    out[n] = (v2 << 6) | v3;
                    n += 1;
                } else {
                    assert!(v2 & 0b11 == 0, "zero padding bits");
                }
            } else {
                assert!(c3 == b'=', "padding is complete");
                assert!(v1 & 0b1111 == 0, "zero padding bits");
            }
        }
        g += 1;
    }
    assert!(n == len, "base64 decodes to the input's length");
    let mut i = 0;
    while i < N {
        if i < len {
            assert!(out[i] == buf[i], "base64 decodes to the input bytes");
        }
        i += 1;
    }
    kani::cover!(len == N, "reach-end");
    std::mem::forget(enc);
}

/// independent UTF-8 validity for <= 4 bytes (Unicode 15 table 3-7)
fn valid_utf8(b: &[u8]) -> bool {
    let mut i = 0;
    let mut guard = 0;
    while i < b.len() && guard < 5 {
        guard += 1;
        let c = b[i];
        let need = if c < 0x80 {
            0
        } else if c >= 0xC2 && c <= 0xDF {
            1
        } else if c >= 0xE0 && c <= 0xEF {
            2
        } else if c >= 0xF0 && c <= 0xF4 {
            3
        } else {
            return false;
        };
        if i + need >= b.len() + if need == 0 { 1 } else { 0 } && need > 0 {
            return false;
        }
        if need >= 1 {
            let c1 = b[i + 1];
            let (lo, hi) = match c {
                0xE0 => (0xA0, 0xBF),
                0xED => (0x80, 0x9F),
                0xF0 => (0x90, 0xBF),
                0xF4 => (0x80, 0x8F),
                _ => (0x80, 0xBF),
            };
            if c1 < lo || c1 > hi {
                return false;
            }
        }
        if need >= 2 {
            let c2 = b[i + 2];
            if c2 < 0x80 || c2 > 0xBF {
                return false;
            }
        }
        if need >= 3 {
            let c3 = b[i + 3];
            if c3 < 0x80 || c3 > 0xBF {
                return false;
            }
        }
        i += need + 1;
    }
    true
}

/// Data::from_bytes: Text (with exactly these bytes) iff the bytes are valid
/// UTF-8, otherwise Bytes (exactly these bytes).
#[kani::proof]
#[kani::unwind(8)]
fn c09_data_from_bytes() {
    let buf: [u8; 4] = kani::any();
    let len: usize = kani::any();
    kani::assume(len <= 4);
    let b = &buf[..len];
    let want_text = valid_utf8(b);
    match Data::from_bytes(b) {
        Data::Text { text } => {
            assert!(want_text, "text is used only for valid UTF-8");
            assert!(text.as_bytes().len() == len && text.as_bytes().as_ptr() == b.as_ptr(), "text is the input bytes");
        }
        Data::Bytes { bytes } => {
            assert!(!want_text, "base64 is used precisely when the bytes are not valid UTF-8");
            assert!(bytes.len() == len && bytes.as_ptr() == b.as_ptr(), "bytes are the input bytes");
        }
    }
    kani::cover!(len == 4 && want_text && buf[0] >= 0x80, "reach-end");
}
