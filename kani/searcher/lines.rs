// Unit lemmas for crates/searcher/src/lines.rs over FULLY SYMBOLIC bytes.
// Included as a child module of `lines` (so private items are visible).
// Serves C03 (locate / preceding / count / LineStep), C01 (without_terminator),
// C13 (locate).  Bounds: buffers of at most N bytes, any byte values, any
// terminator byte; stated in evidence.

const N: usize = 6;

fn any_buf() -> ([u8; N], usize) {
    let buf: [u8; N] = kani::any();
    let len: usize = kani::any();
    kani::assume(len <= N);
    (buf, len)
}

/// locate(bytes, t, [s,e)) returns the smallest line-aligned range covering
/// [s,e): it starts right after the last terminator before `s` (or at 0) and
/// ends right after the first terminator at or after `e-1`... precisely as the
/// doc comment says: "the start and end offsets of the lines containing the
/// given range"; terminators belong to the line they end.
#[kani::proof]
#[kani::unwind(8)]
fn lines_locate() {
    let (buf, len) = any_buf();
    let bytes = &buf[..len];
    let t: u8 = kani::any();
    let s: usize = kani::any();
    let e: usize = kani::any();
    kani::assume(s <= e && e <= len);
    let m = locate(bytes, t, Match::new(s, e));
    let (ls, le) = (m.start(), m.end());
    // start: a line start at or before s with no terminator in between
    assert!(ls <= s);
    assert!(ls == 0 || bytes[ls - 1] == t);
    let mut i = ls;
    while i < s {
        assert!(bytes[i] != t);
        i += 1;
    }
    // end: covers e, is a line end, and is the first such
    assert!(le >= e && le <= len);
    assert!(le == len || (le > 0 && bytes[le - 1] == t));
    if e > ls && bytes[e - 1] == t {
        assert!(le == e);
    } else {
        let mut i = e;
        while i + 1 < le {
            assert!(bytes[i] != t);
            i += 1;
        }
        assert!(le > e || le == len);
    }
    kani::cover!(ls > 0 && le < len, "interior line located");
    kani::cover!(true, "reach-end");
}

#[kani::proof]
#[kani::unwind(8)]
fn lines_count() {
    let (buf, len) = any_buf();
    let t: u8 = kani::any();
    let got = count(&buf[..len], t);
    let mut want = 0u64;
    let mut i = 0;
    while i < len {
        if buf[i] == t {
            want += 1;
        }
        i += 1;
    }
    assert!(got == want);
    kani::cover!(want >= 2, "two terminators counted");
    kani::cover!(true, "reach-end");
}

/// preceding(bytes, t, c): start offset of the line `c` lines before the last
/// line (clamped to the first line).  Reference: collect line starts forward.
#[kani::proof]
#[kani::unwind(8)]
fn lines_preceding() {
    let (buf, len) = any_buf();
    let bytes = &buf[..len];
    let t: u8 = kani::any();
    let c: usize = kani::any();
    kani::assume(c <= N + 1);
    let got = preceding(bytes, t, c);
    // reference
    let mut starts = [0usize; N + 1];
    let mut ns = 0usize;
    if len > 0 {
        starts[0] = 0;
        ns = 1;
        let mut i = 0;
        while i + 1 < len {
            if bytes[i] == t {
                starts[ns] = i + 1;
                ns += 1;
            }
            i += 1;
        }
    }
    let want = if ns == 0 {
        0
    } else if c >= ns {
        starts[0]
    } else {
        starts[ns - 1 - c]
    };
    assert!(got == want);
    kani::cover!(ns >= 3 && c == 1, "three lines, one back");
    kani::cover!(true, "reach-end");
}

/// LineStep over [s,e): yields consecutive non-empty ranges that partition
/// [s,e); each but possibly the last ends in a terminator, none has a
/// terminator in its interior.
#[kani::proof]
#[kani::unwind(9)]
fn lines_linestep() {
    let (buf, len) = any_buf();
    let bytes = &buf[..len];
    let t: u8 = kani::any();
    let s: usize = kani::any();
    let e: usize = kani::any();
    kani::assume(s <= e && e <= len);
    let mut st = LineStep::new(t, s, e);
    let mut at = s;
    let mut n = 0usize;
    while let Some((a, b)) = st.next(bytes) {
        assert!(a == at);
        assert!(b > a && b <= e);
        assert!(bytes[b - 1] == t || b == e);
        let mut i = a;
        while i + 1 < b {
            assert!(bytes[i] != t);
            i += 1;
        }
        at = b;
        n += 1;
        assert!(n <= N);
    }
    assert!(at == e);
    kani::cover!(n >= 3, "three lines stepped");
    kani::cover!(true, "reach-end");
}

/// without_terminator strips exactly one trailing terminator.  For CRLF the
/// documented convention (grep_matcher::LineTerminator) is that a lone `\n`
/// also terminates a line, so the content of `x\n` is `x` and of `x\r\n` is
/// `x`.  C01's "line's content with its terminator removed".
#[kani::proof]
#[kani::unwind(8)]
fn lines_without_terminator() {
    let (buf, len) = any_buf();
    let bytes = &buf[..len];
    let which: u8 = kani::any();
    kani::assume(which < 3);
    let b: u8 = kani::any();
    let lt = match which {
        0 => LineTerminator::byte(b),
        1 => LineTerminator::byte(0),
        _ => LineTerminator::crlf(),
    };
    let got = without_terminator(bytes, lt);
    let want_len = if lt.is_crlf() {
        if len >= 2 && bytes[len - 2] == b'\r' && bytes[len - 1] == b'\n' {
            len - 2
        } else if len >= 1 && bytes[len - 1] == b'\n' {
            len - 1
        } else {
            len
        }
    } else if len >= 1 && bytes[len - 1] == lt.as_byte() {
        len - 1
    } else {
        len
    };
    // a prefix of the input (same start, shorter or equal length)
    assert!(got.as_ptr() == bytes.as_ptr());
    assert!(got.len() == want_len, "without_terminator length");
    kani::cover!(lt.is_crlf() && want_len + 2 == len, "crlf stripped");
    kani::cover!(true, "reach-end");
}
