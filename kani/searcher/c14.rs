// C14 (searcher level) -- binary data.  NUL-bearing shapes (enumerated axis:
// where the NULs are); symbolic per-line hit table, A,B in 0..=1, invert, line
// numbers; strategies: slice and incremental reader (three concrete
// (capacity, read size) pairs; the buffer mechanics under symbolic
// fragmentation are line_buffer.rs lemmas).

fn first_nul<S: Shape>() -> usize {
    let mut f = usize::MAX;
    let mut i = 0;
    while i < S::HAY.len() {
        if S::HAY[i] == 0 && f == usize::MAX {
            f = i;
        }
        i += 1;
    }
    f
}

fn c14_cfg() -> Cfg {
    let mut cfg = any_cfg(1);
    cfg.passthru = false;
    cfg.stop_nm = false;
    cfg
}

fn searcher_with<S: Shape>(cfg: &Cfg, det: crate::searcher::BinaryDetection) -> Searcher {
    SearcherBuilder::new()
        .line_terminator(term_of::<S>())
        .invert_match(cfg.invert)
        .line_number(cfg.lnum)
        .after_context(cfg.a)
        .before_context(cfg.b)
        .binary_detection(det)
        .bom_sniffing(false)
        .build()
}

/// remove the (single) binary notice from a log; returns (index it was at, count)
fn strip_binary(log: &RecSink, cap: usize) -> (RecSink, usize, usize, u64) {
    let mut out = RecSink::new(log.hay);
    let mut at = usize::MAX;
    let mut cnt = 0;
    let mut off = 0;
    let mut i = 0;
    while i < cap {
        if i < log.n {
            if log.ev[i].kind == K_BINARY {
                if at == usize::MAX {
                    at = i;
                }
                cnt += 1;
                off = log.ev[i].off;
            } else {
                let _ = out.push(log.ev[i]);
            }
        }
        i += 1;
    }
    (out, at, cnt, off)
}

/// Quit detection, slice strategy: a NUL anywhere in the (sniffed) input means
/// nothing is delivered: begin, binary notice at the first NUL, finish.
pub(crate) fn c14_slice_quit<S: Shape>() {
    let cfg = c14_cfg();
    let hit = any_hits::<S>();
    let matcher = PlainMatcher::new::<S>(hit);
    let searcher = searcher_with::<S>(&cfg, crate::searcher::BinaryDetection::quit(0));
    let mut sink = RecSink::new(S::HAY);
    let r = SliceByLine::new(&searcher, &matcher, S::HAY, &mut sink).run();
    assert!(r.is_ok());
    let f = first_nul::<S>();
    if f == usize::MAX {
        let (want, ck) = model_events::<S>(&hit, &cfg);
        assert_log_is_model(&sink, &want, ck, evcap::<S>());
    } else {
        assert!(sink.n == 3, "a file with a NUL in the examined portion delivers no line (quit)");
        assert!(sink.ev[0].kind == K_BEGIN && sink.ev[1].kind == K_BINARY && sink.ev[2].kind == K_FINISH);
        assert!(sink.ev[1].off == f as u64, "binary notice carries the first NUL's offset");
        assert!(sink.ev[2].aux == f as u64 + 1, "finish reports the binary offset");
    }
    assert!(!sink.saw_nul, "no NUL byte is delivered in quit mode");
    kani::cover!(sink.n >= 3, "reach-end");
    std::mem::forget(searcher);
}

/// Convert detection, slice strategy: the notice comes before any line is
/// delivered and finish reports the offset (lines are delivered raw: it is the
/// printer that suppresses them, see the printer-side obligations).
pub(crate) fn c14_slice_convert<S: Shape>() {
    let cfg = c14_cfg();
    let hit = any_hits::<S>();
    let matcher = PlainMatcher::new::<S>(hit);
    let searcher = searcher_with::<S>(&cfg, crate::searcher::BinaryDetection::convert(0));
    let mut sink = RecSink::new(S::HAY);
    let r = SliceByLine::new(&searcher, &matcher, S::HAY, &mut sink).run();
    assert!(r.is_ok());
    let f = first_nul::<S>();
    let (rest, at, cnt, off) = strip_binary(&sink, evcap::<S>());
    if f == usize::MAX {
        assert!(cnt == 0, "no NUL, no binary notice");
        let (want, ck) = model_events::<S>(&hit, &cfg);
        assert_log_is_model(&sink, &want, ck, evcap::<S>());
    } else {
        assert!(cnt == 1 && at == 1, "exactly one binary notice, before any line is delivered");
        assert!(off == f as u64, "binary notice carries the first NUL's offset");
        assert!(rest.ev[rest.n - 1].kind == K_FINISH && rest.ev[rest.n - 1].aux == f as u64 + 1, "finish reports the binary offset");
    }
    kani::cover!(sink.n >= 3, "reach-end");
    std::mem::forget(searcher);
}

fn run_reader<S: Shape>(searcher: &Searcher, matcher: &PlainMatcher, det: crate::line_buffer::BinaryDetection, frag: usize, sink: &mut RecSink) -> bool {
    let (cap, chunk) = FRAGS[frag];
    let mut lb = LineBufferBuilder::new()
        .capacity(cap)
        .line_terminator(term_of::<S>().as_byte())
        .binary_detection(det)
        .build();
    let r = {
        let fr = FragReader { hay: S::HAY, pos: 0, calls: 0, chunk: [chunk; MAXREADS], err_at: usize::MAX, err_interrupted: false };
        let rdr = LineBufferReader::new(fr, &mut lb);
        ReadByLine::new(searcher, matcher, rdr, sink).run()
    };
    std::mem::forget(lb);
    r.is_ok()
}

/// Quit detection, reader strategy: the search is cut off at (or, depending on
/// buffering, some whole lines before) the first NUL: what is delivered is a
/// PREFIX of the search of the input cut at the first NUL, no NUL ever reaches
/// the sink, exactly one binary notice carries the first NUL's offset, finish
/// reports it and a byte count that does not exceed it.
pub(crate) fn c14_reader_quit_tiny<S: Shape>() {
    c14_reader_quit::<S>(0)
}
pub(crate) fn c14_reader_quit_wide<S: Shape>() {
    c14_reader_quit::<S>(2)
}

fn c14_reader_quit<S: Shape>(frag: usize) {
    let cfg = c14_cfg();
    let hit = any_hits::<S>();
    let matcher = PlainMatcher::new::<S>(hit);
    let searcher = searcher_with::<S>(&cfg, crate::searcher::BinaryDetection::quit(0));
    let f = first_nul::<S>();
    let upto = if f == usize::MAX { S::HAY.len() } else { f };
    let (want, _ck) = model_events_upto::<S>(&hit, &cfg, upto);
    let mut fr = frag;
    while fr < frag + 1 {
        let mut sink = RecSink::new(S::HAY);
        let ok = run_reader::<S>(&searcher, &matcher, crate::line_buffer::BinaryDetection::Quit(0), fr, &mut sink);
        assert!(ok, "search returns Ok");
        assert!(!sink.saw_nul, "no NUL byte is delivered in quit mode");
        let (mut rest, _at, cnt, off) = strip_binary(&sink, evcap::<S>() + 1);
        if f == usize::MAX {
            assert!(cnt == 0, "no NUL, no binary notice");
            assert_log_is_model(&rest, &want, true, evcap::<S>());
        } else {
            assert!(cnt == 1, "exactly one binary notice");
            assert!(off == f as u64, "binary notice carries the first NUL's offset");
            assert!(rest.n >= 2 && rest.n <= want.n, "no more is delivered than the search of the input before the first NUL");
            let fin = rest.ev[rest.n - 1];
            assert!(fin.kind == K_FINISH, "completion is signalled");
            assert!(fin.aux == f as u64 + 1, "finish reports the binary offset");
            assert!(fin.off <= f as u64, "bytes searched do not exceed the first NUL's offset");
            // everything before the finish is a prefix of the model stream
            rest.n -= 1;
            assert_prefix::<S>(&rest, &want, rest.n - 1);
            let mut i = 0;
            while i < evcap::<S>() {
                if i < rest.n {
                    assert!(want.ev[i].kind != K_FINISH, "a prefix of the line events");
                }
                i += 1;
            }
        }
        fr += 1;
    }
    kani::cover!(true, "reach-end");
    std::mem::forget(searcher);
}

/// Convert detection, reader strategy: the search behaves exactly as a search
/// of the input with every NUL replaced by the terminator (shape T), plus one
/// binary notice at the first NUL's offset.
pub(crate) fn c14_reader_convert_tiny<S: Shape, T: Shape>() {
    c14_reader_convert::<S, T>(0)
}
pub(crate) fn c14_reader_convert_mid<S: Shape, T: Shape>() {
    c14_reader_convert::<S, T>(1)
}

fn c14_reader_convert<S: Shape, T: Shape>(frag: usize) {
    let cfg = c14_cfg();
    let hit = any_hits::<T>();
    let matcher = PlainMatcher::new::<T>(hit);
    let searcher = searcher_with::<S>(&cfg, crate::searcher::BinaryDetection::convert(0));
    let f = first_nul::<S>();
    let (want, _ck) = model_events::<T>(&hit, &cfg);
    let mut fr = frag;
    while fr < frag + 1 {
        // delivered bytes are compared with the CONVERTED input
        let mut sink = RecSink::new(T::HAY);
        let ok = run_reader::<S>(&searcher, &matcher, crate::line_buffer::BinaryDetection::Convert(0), fr, &mut sink);
        assert!(ok, "search returns Ok");
        assert!(!sink.saw_nul, "no NUL byte is delivered by the reader strategy in convert mode");
        let (mut rest, _at, cnt, off) = strip_binary(&sink, evcap::<T>() + 1);
        if f == usize::MAX {
            assert!(cnt == 0, "no NUL, no binary notice");
        } else {
            assert!(cnt == 1, "exactly one binary notice");
            assert!(off == f as u64, "binary notice carries the first NUL's offset");
            assert!(rest.ev[rest.n - 1].aux == f as u64 + 1, "finish reports the binary offset");
            rest.ev[rest.n - 1].aux = 0;
        }
        assert_log_is_model(&rest, &want, true, evcap::<T>());
        fr += 1;
    }
    kani::cover!(true, "reach-end");
    std::mem::forget(searcher);
}
