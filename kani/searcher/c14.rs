// C14 (searcher level) -- binary data.  NUL-bearing shapes (enumerated axis:
// where the NULs are); symbolic per-line hit table, A,B in 0..=1, invert, line
// numbers; strategies: slice and incremental reader (three concrete
// (capacity, read size) pairs; the buffer mechanics under symbolic
// fragmentation are line_buffer.rs lemmas).

fn first_nul<S: Shape>() -> usize {
    let mut f = usize::MAX;
    let mut i = 0;
    while i < S::HAY.len() {
        if S::HAY[i] == 0 && f == usize::MAX {
            f = i;
        }
        i += 1;
    }
    f
}

fn c14_cfg() -> Cfg {
    let mut cfg = any_cfg(1);
    cfg.passthru = false;
    cfg.stop_nm = false;
    cfg
}

fn searcher_with<S: Shape>(cfg: &Cfg, det: crate::searcher::BinaryDetection) -> Searcher {
    SearcherBuilder::new()
        .line_terminator(term_of::<S>())
        .invert_match(cfg.invert)
        .line_number(cfg.lnum)
        .after_context(cfg.a)
        .before_context(cfg.b)
        .binary_detection(det)
        .bom_sniffing(false)
        .build()
}

/// remove the (single) binary notice from a log; returns (index it was at, count)
fn strip_binary(log: &RecSink, cap: usize) -> (RecSink, usize, usize, u64) {
    let mut out = RecSink::new(log.hay);
    let mut at = usize::MAX;
    let mut cnt = 0;
    let mut off = 0;
    let mut i = 0;
    while i < cap {
        if i < log.n {
            if log.ev[i].kind == K_BINARY {
                if at == usize::MAX {
                    at = i;
                }
                cnt += 1;
                off = log.ev[i].off;
            } else {
                let _ = out.push(log.ev[i]);
            }
        }
        i += 1;
    }
    (out, at, cnt, off)
}

/// Quit detection, slice strategy: a NUL anywhere in the (sniffed) input means
/// nothing is delivered: begin, binary notice at the first NUL, finish.
pub(crate) fn c14_slice_quit<S: Shape>() {
    let cfg = c14_cfg();
    let hit = any_hits::<S>();
    let matcher = PlainMatcher::new::<S>(hit);
    let searcher = searcher_with::<S>(&cfg, crate::searcher::BinaryDetection::quit(0));
    let mut sink = RecSink::new(S::HAY);
    let r = SliceByLine::new(&searcher, &matcher, S::HAY, &mut sink).run();
    assert!(r.is_ok());
    let f = first_nul::<S>();
    if f == usize::MAX {
        let (want, ck) = model_events::<S>(&hit, &cfg);
        assert_log_is_model(&sink, &want, ck, evcap::<S>());
    } else {
        assert!(sink.n == 3, "a file with a NUL in the examined portion delivers no line (quit)");
        assert!(sink.ev[0].kind == K_BEGIN && sink.ev[1].kind == K_BINARY && sink.ev[2].kind == K_FINISH);
        assert!(sink.ev[1].off == f as u64, "binary notice carries the first NUL's offset");
        assert!(sink.ev[2].aux == f as u64 + 1, "finish reports the binary offset");
    }
    assert!(!sink.saw_nul, "no NUL byte is delivered in quit mode");
    kani::cover!(sink.n >= 3, "reach-end");
    std::mem::forget(searcher);
}

/// Convert detection, slice strategy: the notice comes before any line is
/// delivered and finish reports the offset (lines are delivered raw: it is the
/// printer that suppresses them, see the printer-side obligations).
pub(crate) fn c14_slice_convert<S: Shape>() {
    let cfg = c14_cfg();
    let hit = any_hits::<S>();
    let matcher = PlainMatcher::new::<S>(hit);
    let searcher = searcher_with::<S>(&cfg, crate::searcher::BinaryDetection::convert(0));
    let mut sink = RecSink::new(S::HAY);
    let r = SliceByLine::new(&searcher, &matcher, S::HAY, &mut sink).run();
    assert!(r.is_ok());
    let f = first_nul::<S>();
    let (rest, at, cnt, off) = strip_binary(&sink, evcap::<S>());
    if f == usize::MAX {
        assert!(cnt == 0, "no NUL, no binary notice");
        let (want, ck) = model_events::<S>(&hit, &cfg);
        assert_log_is_model(&sink, &want, ck, evcap::<S>());
    } else {
        assert!(cnt == 1 && at == 1, "exactly one binary notice, before any line is delivered");
        assert!(off == f as u64, "binary notice carries the first NUL's offset");
        assert!(rest.ev[rest.n - 1].kind == K_FINISH && rest.ev[rest.n - 1].aux == f as u64 + 1, "finish reports the binary offset");
    }
    kani::cover!(sink.n >= 3, "reach-end");
    std::mem::forget(searcher);
}

