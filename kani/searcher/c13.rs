// C13 -- multi-line search reports exactly the lines covered by the pattern's
// successive matches over the WHOLE input.
//
// SpanTableMatcher: for an input of n bytes, a symbolic table E[s] (s in 0..=n)
// gives the end of the leftmost-first match starting at s with look-around
// evaluated against the whole input (NONE = no match starts at s).  A second,
// unconstrained table E0[s] is "what the pattern would match at s if s were the
// first byte of the haystack": it differs from E only for patterns with
// look-behind (^, \b, ...).  A searcher that always hands the whole input to
// the matcher never consults E0.  The matcher learns the absolute offset of
// the (sub)slice it is handed from its length: every haystack MultiLine passes
// is a suffix of the input (no pointer arithmetic needed).

pub(crate) const MAXN: usize = 8; // max input bytes for C13 shapes
pub(crate) const NONE: usize = usize::MAX;

pub(crate) struct SpanTableMatcher {
    pub n: usize,
    pub e: [usize; MAXN + 1],
    pub e0: [usize; MAXN + 1],
    /// set when an answer was taken from e0 (sub-slice look-behind consulted)
    pub used_e0: std::cell::Cell<bool>,
}

impl SpanTableMatcher {
    /// `lookbehind`: allow E0 != E (patterns with look-behind); otherwise the
    /// pattern family is look-behind free and E0 == E.
    pub(crate) fn any<S: Shape>(lookbehind: bool) -> SpanTableMatcher {
        let n = S::HAY.len();
        let mut e = [NONE; MAXN + 1];
        let mut e0 = [NONE; MAXN + 1];
        let mut s = 0;
        while s <= MAXN {
            if s <= n {
                let has: bool = kani::any();
                if has {
                    let end: usize = kani::any();
                    kani::assume(end >= s && end <= n);
                    e[s] = end;
                }
                if lookbehind {
                    let has0: bool = kani::any();
                    if has0 {
                        let end0: usize = kani::any();
                        kani::assume(end0 >= s && end0 <= n);
                        e0[s] = end0;
                    }
                } else {
                    e0[s] = e[s];
                }
            }
            s += 1;
        }
        // at offset 0 "start of haystack" and "whole input" coincide
        e0[0] = e[0];
        SpanTableMatcher { n, e, e0, used_e0: std::cell::Cell::new(false) }
    }
}

impl Matcher for SpanTableMatcher {
    type Captures = NoCaptures;
    type Error = FatErr;

    fn find_at(
        &self,
        hay: &[u8],
        at: usize,
    ) -> Result<Option<Match>, FatErr> {
        // hay is a suffix of the input: its first byte is at absolute p0
        // (anything longer than the input is not the input: no answer; the
        // harness' comparison with the model then fails on the byte count)
        if hay.len() > self.n {
            return Ok(None);
        }
        let p0 = self.n - hay.len();
        let abs_at = p0 + at;
        let mut s = 0;
        let mut found = NONE;
        let mut found_end = 0;
        while s <= MAXN {
            if s <= self.n && s >= abs_at && found == NONE {
                let sub_start = s == p0 && p0 > 0 && at == 0;
                let end = if sub_start { self.e0[s] } else { self.e[s] };
                if end != NONE {
                    if sub_start && self.e0[s] != self.e[s] {
                        self.used_e0.set(true);
                    }
                    found = s;
                    found_end = end;
                } else if sub_start && self.e[s] != NONE {
                    self.used_e0.set(true);
                }
            }
            s += 1;
        }
        if found == NONE {
            Ok(None)
        } else {
            Ok(Some(Match::new(found - p0, found_end - p0)))
        }
    }

    fn new_captures(&self) -> Result<NoCaptures, FatErr> {
        Ok(NoCaptures::new())
    }
}

/// line index containing byte offset `pos` (pos < len), for shape S
fn line_of<S: Shape>(pos: usize) -> usize {
    let mut i = 0;
    let mut r = 0;
    while i < S::NL {
        if pos >= S::LSTART[i] && pos < S::LSTART[i + 1] {
            r = i;
        }
        i += 1;
    }
    r
}

/// Reference: which lines are overlapped by the successive matches of the
/// E-table over the whole input.  Iteration as the property's mechanism states
/// it: the next search starts at the previous match's end, one byte further
/// after an empty match.  A match (s,e) covers the lines of bytes s..e (for an
/// empty match: the line containing s; an empty match at the very end of an
/// input that ends in a terminator lies on no line).
fn ref_selected<S: Shape>(m: &SpanTableMatcher) -> ([bool; MAXL], bool) {
    let n = S::HAY.len();
    let mut sel = [false; MAXL];
    let mut pos = 0usize;
    // end of the last line covered by the previous match; a later match that
    // starts before it "straddles" (starts inside already matched lines)
    let mut covered_end = 0usize;
    let mut straddle = false;
    let mut s = 0;
    while s <= MAXN {
        // one pass over start positions suffices: matches are found in
        // increasing start order and `pos` only moves forward
        if s <= n && s >= pos && m.e[s] != NONE {
            let e = m.e[s];
            if s < covered_end {
                straddle = true;
            }
            // lines covered
            if e > s {
                let l0 = line_of::<S>(s);
                let l1 = line_of::<S>(e - 1);
                let mut i = 0;
                while i < S::NL {
                    if i >= l0 && i <= l1 {
                        sel[i] = true;
                    }
                    i += 1;
                }
                covered_end = S::LSTART[l1 + 1];
                pos = e;
            } else {
                if s < n {
                    sel[line_of::<S>(s)] = true;
                    covered_end = S::LSTART[line_of::<S>(s) + 1];
                } else if n > 0 && S::LSTART[S::NL] == n && !ends_with_term::<S>() {
                    // empty match at the end of an unterminated last line
                    sel[S::NL - 1] = true;
                }
                pos = if s < n { s + 1 } else { s + 1 };
            }
        }
        s += 1;
    }
    (sel, straddle)
}

fn ends_with_term<S: Shape>() -> bool {
    let n = S::HAY.len();
    n > 0 && S::HAY[n - 1] == term_of::<S>().as_byte()
}

/// Expected event stream of a multi-line search: like the line model, except
/// that without inversion every maximal run of selected lines is delivered as
/// ONE match event ("ranges that touch or overlap are merged").
fn multiline_model<S: Shape>(sel_pat: &[bool; MAXL], cfg: &Cfg) -> RecSink {
    // reuse the line model with hit := selected-by-pattern
    let (kind, _cut, _stopped) = model_lines::<S>(sel_pat, cfg);
    let mut out = RecSink::new(S::HAY);
    let _ = out.push(Ev { kind: K_BEGIN, ..EV0 });
    let any_ctx = !cfg.passthru && (cfg.a > 0 || cfg.b > 0);
    let mut prev: usize = usize::MAX; // last delivered line
    let mut run_start: usize = usize::MAX; // start line of the open match run
    let mut i = 0;
    while i < S::NL {
        let is_match = kind[i] == K_MATCH;
        let merge = !cfg.invert;
        if is_match && merge {
            if run_start == usize::MAX {
                run_start = i;
            }
            let last_of_run = i + 1 >= S::NL || kind[i + 1] != K_MATCH;
            if last_of_run {
                if any_ctx && prev != usize::MAX && run_start > prev + 1 {
                    let _ = out.push(Ev { kind: K_BREAK, ..EV0 });
                }
                let _ = out.push(Ev {
                    kind: K_MATCH,
                    off: S::LSTART[run_start] as u64,
                    len: S::LSTART[i + 1] - S::LSTART[run_start],
                    lnum: if cfg.lnum { (run_start + 1) as u64 } else { 0 },
                    ok: true,
                    aux: 0,
                });
                prev = i;
                run_start = usize::MAX;
            }
        } else if kind[i] != 0 {
            if any_ctx && prev != usize::MAX && i > prev + 1 {
                let _ = out.push(Ev { kind: K_BREAK, ..EV0 });
            }
            let _ = out.push(Ev {
                kind: kind[i],
                off: S::LSTART[i] as u64,
                len: S::LSTART[i + 1] - S::LSTART[i],
                lnum: if cfg.lnum { (i + 1) as u64 } else { 0 },
                ok: true,
                aux: 0,
            });
            prev = i;
        }
        i += 1;
    }
    let _ = out.push(Ev { kind: K_FINISH, off: S::HAY.len() as u64, ..EV0 });
    out
}

/// decode table number `t` (mixed radix: position s has n-s+2 choices: none,
/// or an end in s..=n); returns None when more than `max_set` entries are set
fn table_from_index(n: usize, mut t: usize, max_set: usize) -> Option<[usize; MAXN + 1]> {
    let mut e = [NONE; MAXN + 1];
    let mut set = 0;
    let mut s = 0;
    while s <= MAXN {
        if s <= n {
            let radix = n - s + 2;
            let d = t % radix;
            t /= radix;
            if d > 0 {
                e[s] = s + d - 1;
                set += 1;
            }
        }
        s += 1;
    }
    if set > max_set {
        None
    } else {
        Some(e)
    }
}

fn table_count(n: usize) -> usize {
    let mut c = 1usize;
    let mut s = 0;
    while s <= n {
        c *= n - s + 2;
        s += 1;
    }
    c
}

const C13_CFGS: [(bool, usize, usize, bool); 5] =
    [(false, 0, 0, false), (false, 1, 1, false), (true, 1, 1, false), (true, 0, 0, false), (false, 0, 0, true)];

/// Multi-line strategy end to end.  A symbolic span table does not terminate
/// (DESIGN.md 7.1), so the table is enumerated in-harness: EVERY table of the
/// shape when it has <= 3 bytes, every table with at most `max_set` match
/// starts otherwise; x 5 configurations (invert, contexts, passthru); line
/// numbering symbolic.  `lookbehind`: for every resumption point p > 0 also
/// every value of E0[p] (the pattern's answer if p were start-of-haystack).
/// `ks`: additionally stop (Some(false)) / fail (Some(true)) at every sink call.
fn c13_enum<S: Shape>(max_set: usize, lookbehind: bool, ks: Option<bool>, cfgs: &[usize]) {
    let n = S::HAY.len();
    let mut cfg = Cfg { a: 0, b: 0, invert: false, passthru: false, lnum: kani::any(), stop_nm: false };
    let mut searcher = build_searcher::<S>(&cfg, true);
    let total = table_count(n);
    let mut seen_match = false;
    let mut known_role_hit = false;
    let mut t = 0;
    while t < total {
        if let Some(e) = table_from_index(n, t, max_set) {
            // look-behind variants: one alternative E0 value at one position
            let nvar = if lookbehind { 1 + n * (n + 2) } else { 1 };
            let mut var = 0;
            while var < nvar {
                let mut e0 = e;
                let mut skip = false;
                if var > 0 {
                    let p = 1 + (var - 1) / (n + 2);
                    let d = (var - 1) % (n + 2);
                    if p > n || (d > 0 && p + d - 1 > n) {
                        skip = true;
                    } else {
                        e0[p] = if d == 0 { NONE } else { p + d - 1 };
                        if e0[p] == e[p] {
                            skip = true;
                        }
                    }
                }
                if !skip {
                    let matcher = SpanTableMatcher { n, e, e0, used_e0: std::cell::Cell::new(false) };
                    let (sel, straddle) = ref_selected::<S>(&matcher);
                    let mut ci = 0;
                    while ci < cfgs.len() {
                        let (inv, a, b, pt) = C13_CFGS[cfgs[ci]];
                        cfg.invert = inv;
                        cfg.a = a;
                        cfg.b = b;
                        cfg.passthru = pt;
                        searcher.config.invert_match = inv;
                        searcher.config.after_context = a;
                        searcher.config.before_context = b;
                        searcher.config.passthru = pt;
                        let want = multiline_model::<S>(&sel, &cfg);
                        let mut sink = RecSink::new(S::HAY);
                        let r = MultiLine::new(&searcher, &matcher, S::HAY, &mut sink).run();
                        assert!(r.is_ok(), "search returns Ok");
                        if inv && straddle {
                            // role split for a known finding (see known-findings.json)
                            // (C16 instantiations check interruption only, on the other tables)
                            // Recorded, asserted at the END of the harness: a failing
                            // assertion here would cut off (assert = assert + assume) the
                            // rest of the enumeration.
                            if ks.is_none() && !log_is_model(&sink, &want, evcap::<S>()) {
                                known_role_hit = true;
                            }
                        } else {
                            assert_log_is_model(&sink, &want, true, evcap::<S>());
                        }
                        if sink.n >= 3 {
                            seen_match = true;
                        }
                        if let (Some(fail), false) = (ks, inv && straddle) {
                            let mut k = 0;
                            while k + 1 < want.n {
                                let mut sink = RecSink::new(S::HAY);
                                sink.ctl = true;
                                if fail {
                                    sink.fail_at = k;
                                } else {
                                    sink.stop_at = k;
                                }
                                let r = MultiLine::new(&searcher, &matcher, S::HAY, &mut sink).run();
                                check_interrupted::<S>(&sink, &want, r.is_err(), k, fail);
                                k += 1;
                            }
                        }
                        ci += 1;
                    }
                }
                var += 1;
            }
        }
        t += 1;
    }
    kani::cover!(seen_match, "reach-end");
    assert!(!known_role_hit, "inverted multi-line search: a match that starts inside the lines covered by the previous match is lost");
    std::mem::forget(searcher);
}

/// look-behind-free patterns: every span table (<= 3 bytes) / every table with
/// at most 2 match starts (4..5 bytes)
pub(crate) fn c13_multiline<S: Shape>() {
    c13_enum::<S>(if S::HAY.len() <= 3 { MAXN } else { 2 }, false, None, &[0, 1])
}
/// same, inverted (with and without contexts)
pub(crate) fn c13_multiline_inv<S: Shape>() {
    c13_enum::<S>(if S::HAY.len() <= 3 { MAXN } else { 2 }, false, None, &[2, 3])
}
/// same, passthru
pub(crate) fn c13_multiline_passthru<S: Shape>() {
    c13_enum::<S>(if S::HAY.len() <= 3 { MAXN } else { 2 }, false, None, &[4])
}

/// patterns WITH look-behind: additionally every alternative answer at a
/// resumption point taken as start-of-haystack; the property demands the
/// whole-input answer
pub(crate) fn c13_multiline_lookbehind<S: Shape>() {
    c13_enum::<S>(if S::HAY.len() <= 1 { MAXN } else { 1 }, true, None, &[0, 2])
}

/// C16 for the multi-line strategy: stop at every sink call
pub(crate) fn c16_multiline_refuse<S: Shape>() {
    // contexts (1,1), inverted with contexts, passthru; one match start per
    // table on inputs of 3+ bytes (every table on shorter ones): the run count
    // (tables x configurations x stop indices) is what bounds CBMC's memory
    c13_enum::<S>(if S::HAY.len() <= 2 { MAXN } else { 1 }, false, Some(false), &[1, 2, 4])
}

/// C16 for the multi-line strategy: sink error at every sink call
pub(crate) fn c16_multiline_error<S: Shape>() {
    c13_enum::<S>(if S::HAY.len() <= 2 { MAXN } else { 1 }, false, Some(true), &[1, 2, 4])
}

/// C13/C02 (history): multi-line search through `Searcher::search_reader` reads
/// the whole input into a buffer the Searcher REUSES for the next search; two
/// consecutive searches of the same input (2-byte reads) must both equal the
/// model (offsets and byte count from zero again).  Every span table with at
/// most one match start; no context; line numbering symbolic.
pub(crate) fn c13_reader_reuse<S: Shape>() {
    let n = S::HAY.len();
    let cfg = Cfg { a: 0, b: 0, invert: false, passthru: false, lnum: kani::any(), stop_nm: false };
    let mut searcher = build_searcher::<S>(&cfg, true);
    let total = table_count(n);
    let mut seen_match = false;
    let mut t = 0;
    while t < total {
        if let Some(e) = table_from_index(n, t, 1) {
            let matcher = SpanTableMatcher { n, e, e0: e, used_e0: std::cell::Cell::new(false) };
            let (sel, _straddle) = ref_selected::<S>(&matcher);
            let want = multiline_model::<S>(&sel, &cfg);
            let mut round = 0;
            while round < 2 {
                let mut sink = RecSink::new(S::HAY);
                let fr = FragReader { hay: S::HAY, pos: 0, calls: 0, chunk: [2; MAXREADS], err_at: usize::MAX, err_interrupted: false };
                let r = searcher.search_reader(&matcher, fr, &mut sink);
                assert!(r.is_ok(), "search returns Ok");
                assert_log_is_model(&sink, &want, true, evcap::<S>());
                if sink.n >= 3 {
                    seen_match = true;
                }
                round += 1;
            }
        }
        t += 1;
    }
    kani::cover!(seen_match, "reach-end");
    std::mem::forget(searcher);
}
