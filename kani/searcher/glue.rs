// placeholder
