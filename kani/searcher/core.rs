// Kani harnesses living in a child module of crate::searcher::core.
// The generic bodies below are instantiated once per shape by the generated
// file shapes_gen.rs (written into the scratch copy of /verif/kani by
// lib/rgverif/shapes.py on every run).

include!("common.rs");

// ------------------------------------------------------------ C03 / C01
// Slow line path end to end (SliceByLine::run, the strategy `search_slice`
// selects for a non-multi-line search), result == grep model.  The
// configuration space is split into three variants so that the flags that
// change the *control skeleton* of the search loop (passthru, stop-on-nonmatch)
// are concrete per variant while everything else stays symbolic; all
// combinations are covered by the union of the variants.
fn c03_slice_body<S: Shape>(cfg: Cfg) {
    let hit = any_hits::<S>();
    let matcher = PlainMatcher::new::<S>(hit);
    let searcher = build_searcher::<S>(&cfg, false);
    let mut sink = RecSink::new(S::HAY);
    let r = SliceByLine::new(&searcher, &matcher, S::HAY, &mut sink).run();
    assert!(r.is_ok(), "search returns Ok");
    let (want, count_known) = model_events::<S>(&hit, &cfg);
    assert_log_is_model(&sink, &want, count_known, evcap::<S>());
    if !count_known {
        let (_k, cut, _s) = model_lines::<S>(&hit, &cfg);
        assert!(
            sink.ev[sink.n - 1].off == S::LSTART[cut] as u64,
            "slice strategy: byte count after stop-on-nonmatch is the end of the cut line"
        );
    }
    // single cover (each satisfied cover costs CBMC one full trace build):
    // the end is reached in a run that delivered every line of the shape
    kani::cover!(sink.n >= S::NL + 2, "reach-end");
    std::mem::forget(searcher);
}

/// contexts A,B in 0..=2, invert, line numbers symbolic
pub(crate) fn c03_slice_ctx<S: Shape>() {
    let mut cfg = any_cfg(2);
    cfg.passthru = false;
    cfg.stop_nm = false;
    c03_slice_body::<S>(cfg)
}

/// stop-on-nonmatch on; A,B in 0..=1, invert, line numbers symbolic
pub(crate) fn c03_slice_stop<S: Shape>() {
    let mut cfg = any_cfg(1);
    cfg.passthru = false;
    cfg.stop_nm = true;
    c03_slice_body::<S>(cfg)
}

/// passthru on (contexts are zeroed by the builder); invert, line numbers,
/// stop-on-nonmatch symbolic
pub(crate) fn c03_slice_passthru<S: Shape>() {
    let mut cfg = any_cfg(1);
    cfg.passthru = true;
    c03_slice_body::<S>(cfg)
}

// ------------------------------------------------------------ C03 / C01, fast line path
// The matcher declares the line terminator, so Core takes match_by_line_fast /
// find_by_line_fast / match_by_line_fast_invert (and switches to the slow loop
// after the first match under stop-on-nonmatch).  On this path the scan
// position depends on WHICH lines match, so with a symbolic hit table every
// nested loop is unrolled to its bound at every level (DESIGN.md section 0:
// does not terminate).  The hit table is therefore the second enumerated axis
// here: the harness loops over every hit pattern of the shape, over
// invert / stop-on-nonmatch, and over where in the line the matcher reports
// its offset (start or end of content), all concrete per iteration, so the
// search's control flow folds; A, B in 0..=2, line numbering and (C16) the
// stop/error index stay symbolic and are decided by the solver.
// `mode`: 0 = Confirmed offsets; 1 = Candidate offsets, candidates == hits;
// 2 = Candidate offsets, EVERY line is a candidate (maximal false positives).
fn fast_matcher<S: Shape>(pat: usize, mode: u8, at_end: bool) -> Option<LtMatcher> {
    let mut hit = [false; MAXL];
    let mut cand = [false; MAXL];
    let mut moff = [0usize; MAXL];
    let mut empty_seen = false;
    let mut empty_val = false;
    let mut k = 0;
    while k < S::NL {
        hit[k] = (pat >> k) & 1 == 1;
        if S::CLEN[k] == 0 {
            // lines with identical (empty) content share one answer
            if empty_seen && empty_val != hit[k] {
                return None;
            }
            empty_seen = true;
            empty_val = hit[k];
        }
        cand[k] = hit[k] || mode == 2;
        moff[k] = if at_end { S::CLEN[k] } else { 0 };
        k += 1;
    }
    Some(LtMatcher {
        plain: PlainMatcher {
            hit,
            hit_empty: empty_val,
            raw: false,
            termbyte: term_of::<S>().as_byte(),
            nl: S::NL,
        },
        cand,
        moff,
        confirm: mode == 0,
        n: S::HAY.len(),
        lstart: S::LSTART,
        term: term_of::<S>(),
    })
}

fn c03_fast_enum<S: Shape>(mode: u8) {
    let mut cfg = any_cfg(2);
    cfg.passthru = false;
    cfg.invert = false;
    cfg.stop_nm = false;
    let mut searcher = build_searcher::<S>(&cfg, false);
    let mut delivered_all = false;
    let mut v = 0;
    while v < 8 {
        let (inv, stop, at_end) = (v & 1 == 1, v & 2 == 2, v & 4 == 4);
        cfg.invert = inv;
        cfg.stop_nm = stop;
        // same object the builder produced; only the two flags are switched
        searcher.config.invert_match = inv;
        searcher.config.stop_on_nonmatch = stop;
        let mut pat = 0;
        while pat < (1usize << S::NL) {
            if let Some(matcher) = fast_matcher::<S>(pat, mode, at_end) {
                let mut sink = RecSink::new(S::HAY);
                let r = SliceByLine::new(&searcher, &matcher, S::HAY, &mut sink).run();
                assert!(r.is_ok(), "search returns Ok");
                let (want, count_known) = model_events::<S>(&matcher.plain.hit, &cfg);
                assert_log_is_model(&sink, &want, count_known, evcap::<S>());
                if sink.n >= S::NL + 2 {
                    delivered_all = true;
                }
            }
            pat += 1;
        }
        v += 1;
    }
    kani::cover!(delivered_all, "reach-end");
    std::mem::forget(searcher);
}

pub(crate) fn c03_fast_confirmed<S: Shape>() {
    c03_fast_enum::<S>(0)
}
pub(crate) fn c03_fast_candidate<S: Shape>() {
    c03_fast_enum::<S>(1)
}
pub(crate) fn c03_fast_candidate_all<S: Shape>() {
    c03_fast_enum::<S>(2)
}

// ------------------------------------------------------------ C02
// Incremental reader strategy (ReadByLine over LineBufferReader) with symbolic
// read fragmentation (1..=3 bytes per read()) and symbolic initial buffer
// capacity 1..=4 with eager growth, against the same grep model the slice
// strategy is held to (c03_slice_*): reader == model == slice.
fn c02_reader_body<S: Shape>(cfg: Cfg) {
    let hit = any_hits::<S>();
    let matcher = PlainMatcher::new::<S>(hit);
    let searcher = build_searcher::<S>(&cfg, false);
    let cap: usize = kani::any();
    kani::assume(cap >= 1 && cap <= 4);
    let mut lb = LineBufferBuilder::new()
        .capacity(cap)
        .line_terminator(term_of::<S>().as_byte())
        .build();
    let mut sink = RecSink::new(S::HAY);
    let r = {
        let rdr = LineBufferReader::new(FragReader::any(S::HAY), &mut lb);
        ReadByLine::new(&searcher, &matcher, rdr, &mut sink).run()
    };
    assert!(r.is_ok(), "search returns Ok");
    let (want, complete) = model_events::<S>(&hit, &cfg);
    assert_log_is_model(&sink, &want, complete, evcap::<S>());
    if !complete {
        // stop-on-nonmatch cut the search short: C02 asks for the same final
        // byte count as the slice strategy reports (end of the cut line,
        // established for the slice by c03_slice_stop / c03_slice_passthru)
        let (_k, cut, _s) = model_lines::<S>(&hit, &cfg);
        assert!(
            sink.ev[sink.n - 1].off == S::LSTART[cut] as u64,
            "byte count after stop-on-nonmatch equals the slice strategy's"
        );
    }
    kani::cover!(sink.n >= S::NL + 2, "reach-end");
    std::mem::forget(searcher);
    std::mem::forget(lb);
}

pub(crate) fn c02_reader_ctx<S: Shape>() {
    let mut cfg = any_cfg(1);
    cfg.passthru = false;
    cfg.stop_nm = false;
    c02_reader_body::<S>(cfg)
}

pub(crate) fn c02_reader_stop<S: Shape>() {
    let mut cfg = any_cfg(1);
    cfg.passthru = false;
    cfg.stop_nm = true;
    c02_reader_body::<S>(cfg)
}

pub(crate) fn c02_reader_passthru<S: Shape>() {
    let mut cfg = any_cfg(0);
    cfg.passthru = true;
    cfg.stop_nm = false;
    c02_reader_body::<S>(cfg)
}

include!("c16.rs");
include!("c13.rs");

include!("shapes_gen.rs");
