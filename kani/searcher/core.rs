// Kani harnesses living in a child module of crate::searcher::core.
// The generic bodies below are instantiated once per shape by the generated
// file shapes_gen.rs (written into the scratch copy of /verif/kani by
// lib/rgverif/shapes.py on every run).

include!("common.rs");
include!("c16.rs");

// ------------------------------------------------------------ C03 / C01
// Slow line path end to end (SliceByLine::run, the strategy `search_slice`
// selects for a non-multi-line search), result == grep model.  The
// configuration space is split into three variants so that the flags that
// change the *control skeleton* of the search loop (passthru, stop-on-nonmatch)
// are concrete per variant while everything else stays symbolic; all
// combinations are covered by the union of the variants.
fn c03_slice_body<S: Shape>(cfg: Cfg) {
    let hit = any_hits::<S>();
    let matcher = PlainMatcher::new::<S>(hit);
    let searcher = build_searcher::<S>(&cfg, false);
    let mut sink = RecSink::new(S::HAY);
    let r = SliceByLine::new(&searcher, &matcher, S::HAY, &mut sink).run();
    assert!(r.is_ok(), "search returns Ok");
    let (want, count_known) = model_events::<S>(&hit, &cfg);
    assert_log_is_model(&sink, &want, count_known, evcap::<S>());
    if !count_known {
        let (_k, cut, _s) = model_lines::<S>(&hit, &cfg);
        assert!(
            sink.ev[sink.n - 1].off == S::LSTART[cut] as u64,
            "slice strategy: byte count after stop-on-nonmatch is the end of the cut line"
        );
    }
    // single cover (each satisfied cover costs CBMC one full trace build):
    // the end is reached in a run that delivered every line of the shape
    kani::cover!(sink.n >= S::NL + 2, "reach-end");
    std::mem::forget(searcher);
}

/// contexts A,B in 0..=2, invert, line numbers symbolic
pub(crate) fn c03_slice_ctx<S: Shape>() {
    let mut cfg = any_cfg(2);
    cfg.passthru = false;
    cfg.stop_nm = false;
    c03_slice_body::<S>(cfg)
}

/// stop-on-nonmatch on; A,B in 0..=1, invert, line numbers symbolic
pub(crate) fn c03_slice_stop<S: Shape>() {
    let mut cfg = any_cfg(1);
    cfg.passthru = false;
    cfg.stop_nm = true;
    c03_slice_body::<S>(cfg)
}

/// passthru on (contexts are zeroed by the builder); invert, line numbers,
/// stop-on-nonmatch symbolic
pub(crate) fn c03_slice_passthru<S: Shape>() {
    let mut cfg = any_cfg(1);
    cfg.passthru = true;
    c03_slice_body::<S>(cfg)
}

// ------------------------------------------------------------ C03 / C01, fast line path
// The matcher declares the line terminator, so Core takes match_by_line_fast /
// find_by_line_fast / match_by_line_fast_invert (and switches to the slow loop
// after the first match under stop-on-nonmatch).  On this path the scan
// position depends on WHICH lines match, so with a symbolic hit table every
// nested loop is unrolled to its bound at every level (DESIGN.md section 0:
// does not terminate).  The hit table is therefore the second enumerated axis
// here: the harness loops over every hit pattern of the shape, over
// invert / stop-on-nonmatch, and over where in the line the matcher reports
// its offset (start or end of content), all concrete per iteration, so the
// search's control flow folds; A, B in 0..=2, line numbering and (C16) the
// stop/error index stay symbolic and are decided by the solver.
// `mode`: 0 = Confirmed offsets; 1 = Candidate offsets, candidates == hits;
// 2 = Candidate offsets, EVERY line is a candidate (maximal false positives).
fn fast_matcher<S: Shape>(pat: usize, mode: u8, at_end: bool) -> Option<LtMatcher> {
    let mut hit = [false; MAXL];
    let mut cand = [false; MAXL];
    let mut moff = [0usize; MAXL];
    let mut empty_seen = false;
    let mut empty_val = false;
    let mut k = 0;
    while k < S::NL {
        hit[k] = (pat >> k) & 1 == 1;
        if S::CLEN[k] == 0 {
            // lines with identical (empty) content share one answer
            if empty_seen && empty_val != hit[k] {
                return None;
            }
            empty_seen = true;
            empty_val = hit[k];
        }
        cand[k] = hit[k] || mode == 2;
        moff[k] = if at_end { S::CLEN[k] } else { 0 };
        k += 1;
    }
    Some(LtMatcher {
        plain: PlainMatcher {
            hit,
            hit_empty: empty_val,
            raw: false,
            termbyte: term_of::<S>().as_byte(),
            nl: S::NL,
        },
        cand,
        moff,
        confirm: mode == 0,
        n: S::HAY.len(),
        lstart: S::LSTART,
        term: term_of::<S>(),
    })
}

/// One harness per matcher mode.  Enumerated in-harness (concrete per
/// iteration, so the search's control flow folds): hit pattern (all 2^NL),
/// invert, stop-on-nonmatch, offset position, and (A,B) from a small list.
/// Symbolic (decided by the solver): whether line numbers are on, and the
/// index k of the sink call that refuses (stop) or fails (error) -- k beyond
/// the stream means an uninterrupted run, which must equal the grep model
/// (C03/C01); k inside it must yield the prefix (C16).
/// `ks`: None = uninterrupted runs only (== grep model);  Some(fail) = in
/// addition every sink-call index k at which the sink refuses (fail=false) or
/// fails (fail=true) is enumerated and the prefix property checked.  (A
/// SYMBOLIC k does not terminate on this path: the fast loop's result enum
/// becomes a symbolic tag and symex then also explores the switch-to-slow arm
/// from a symbolic position -- measured: out of memory after 9 minutes for a
/// single 2-line pattern.)
fn fast_enum<S: Shape>(
    mode: u8,
    invs: &[bool],
    stops: &[bool],
    at_ends: &[bool],
    abs: &[(usize, usize)],
    ks: Option<bool>,
) {
    let mut cfg = Cfg { a: 0, b: 0, invert: false, passthru: false, lnum: kani::any(), stop_nm: false };
    let mut searcher = build_searcher::<S>(&cfg, false);
    let mut delivered_all = false;
    for &inv in invs {
        for &stop in stops {
            for &at_end in at_ends {
                for &(a, b) in abs {
                    cfg.invert = inv;
                    cfg.stop_nm = stop;
                    cfg.a = a;
                    cfg.b = b;
                    // same object the builder produced; only these fields are switched
                    searcher.config.invert_match = inv;
                    searcher.config.stop_on_nonmatch = stop;
                    searcher.config.after_context = a;
                    searcher.config.before_context = b;
                    let mut pat = 0;
                    while pat < (1usize << S::NL) {
                        if let Some(matcher) = fast_matcher::<S>(pat, mode, at_end) {
                            let (full, count_known) = model_events::<S>(&matcher.plain.hit, &cfg);
                            let mut sink = RecSink::new(S::HAY);
                            let r = SliceByLine::new(&searcher, &matcher, S::HAY, &mut sink).run();
                            assert!(r.is_ok(), "search returns Ok");
                            assert_log_is_model(&sink, &full, count_known, evcap::<S>());
                            if sink.n >= S::NL + 2 {
                                delivered_all = true;
                            }
                            if let Some(fail) = ks {
                                let mut k = 0;
                                while k + 1 < full.n {
                                    let mut sink = RecSink::new(S::HAY);
                                    sink.ctl = true;
                                    if fail {
                                        sink.fail_at = k;
                                    } else {
                                        sink.stop_at = k;
                                    }
                                    let r = SliceByLine::new(&searcher, &matcher, S::HAY, &mut sink).run();
                                    check_interrupted::<S>(&sink, &full, r.is_err(), k, fail);
                                    k += 1;
                                }
                            }
                        }
                        pat += 1;
                    }
                }
            }
        }
    }
    kani::cover!(delivered_all, "reach-end");
    std::mem::forget(searcher);
}

/// Confirmed offsets (reported at the start of the content), with and without
/// inversion, contexts (0,0), (1,1), (2,0), (0,2)
pub(crate) fn c03_fast_confirmed<S: Shape>() {
    fast_enum::<S>(0, &[false, true], &[false], &[false], &[(0, 0), (1, 1), (2, 0), (0, 2)], None)
}
/// every line is a Candidate (offset reported at the end of the content)
pub(crate) fn c03_fast_candidate_all<S: Shape>() {
    fast_enum::<S>(2, &[false, true], &[false], &[true], &[(0, 0), (1, 1), (2, 1)], None)
}
/// stop-on-nonmatch on: the fast loop hands over to the slow loop after the
/// first match; Candidate offsets (candidates == hits)
pub(crate) fn c03_fast_stop<S: Shape>() {
    fast_enum::<S>(1, &[false, true], &[true], &[false, true], &[(0, 0), (1, 1)], None)
}
/// C16 on the fast path: sink refuses at every call index
pub(crate) fn c16_fast_refuse<S: Shape>() {
    fast_enum::<S>(0, &[false, true], &[false], &[false], &[(1, 1)], Some(false))
}
/// C16 on the fast path: sink fails at every call index
pub(crate) fn c16_fast_error<S: Shape>() {
    fast_enum::<S>(2, &[false, true], &[false], &[true], &[(1, 1)], Some(true))
}

/// find_by_line_fast alone, from an arbitrary line-start position, with fully
/// SYMBOLIC hit / candidate / offset tables and reporting mode: returns the
/// first line at or after the position that matches (Confirmed: hit; Candidate:
/// flagged and confirmed on the stripped line), as exactly that line's range.
pub(crate) fn c01_find_by_line_fast<S: Shape>() {
    let hit = any_hits::<S>();
    let matcher = LtMatcher::new::<S>(hit);
    let cfg = Cfg { a: 0, b: 0, invert: false, passthru: false, lnum: false, stop_nm: false };
    let searcher = build_searcher::<S>(&cfg, false);
    let mut sink = RecSink::new(S::HAY);
    let mut core = Core::new(&searcher, &matcher, &mut sink, true);
    let p: usize = kani::any();
    kani::assume(p <= S::NL);
    core.pos = S::LSTART[p];
    let got = core.find_by_line_fast(S::HAY);
    let mut want = usize::MAX;
    let mut k = 0;
    while k < S::NL {
        if k >= p && want == usize::MAX && hit[k] {
            want = k;
        }
        k += 1;
    }
    match got {
        Err(_) => assert!(false, "find_by_line_fast returns Ok"),
        Ok(None) => assert!(want == usize::MAX, "a matching line at or after the position is found"),
        Ok(Some(r)) => {
            assert!(want != usize::MAX, "only a matching line is returned");
            assert!(
                r.start() == S::LSTART[want] && r.end() == S::LSTART[want + 1],
                "the FIRST matching line at or after the position is returned, as that line's range"
            );
        }
    }
    kani::cover!(want != usize::MAX && want > p, "reach-end");
    std::mem::forget(searcher);
}

// ------------------------------------------------------------ C02
// Incremental reader strategy (ReadByLine over LineBufferReader) with symbolic
// read fragmentation (1..=3 bytes per read()) and symbolic initial buffer
// capacity 1..=4 with eager growth, against the same grep model the slice
// strategy is held to (c03_slice_*): reader == model == slice.
/// (initial capacity, bytes per read()): enumerated concretely so that buffer
/// positions fold; the buffer mechanics under SYMBOLIC fragmentation and
/// capacity are the line_buffer.rs lemmas (c02_linebuffer_*).  (A fully
/// symbolic fragmentation here: 9 harnesses x 5 GB, no result in 11 minutes.)
const FRAGS: [(usize, u8); 3] = [(1, 1), (2, 3), (4, 2)];

fn c02_reader_body<S: Shape>(cfg: Cfg, frag: usize) {
    let hit = any_hits::<S>();
    let matcher = PlainMatcher::new::<S>(hit);
    let searcher = build_searcher::<S>(&cfg, false);
    let (want, complete) = model_events::<S>(&hit, &cfg);
    let mut delivered_all = false;
    let mut f = frag;
    while f < frag + 1 {
        let (cap, chunk) = FRAGS[f];
        let mut lb = LineBufferBuilder::new()
            .capacity(cap)
            .line_terminator(term_of::<S>().as_byte())
            .build();
        let mut sink = RecSink::new(S::HAY);
        let r = {
            let frag = FragReader {
                hay: S::HAY,
                pos: 0,
                calls: 0,
                chunk: [chunk; MAXREADS],
                err_at: usize::MAX,
                err_interrupted: false,
            };
            let rdr = LineBufferReader::new(frag, &mut lb);
            ReadByLine::new(&searcher, &matcher, rdr, &mut sink).run()
        };
        assert!(r.is_ok(), "search returns Ok");
        assert_log_is_model(&sink, &want, complete, evcap::<S>());
        if !complete {
            // stop-on-nonmatch cut the search short: C02 asks for the same final
            // byte count as the slice strategy reports (end of the cut line,
            // established for the slice by c03_slice_stop / c03_slice_passthru)
            let (_k, cut, _s) = model_lines::<S>(&hit, &cfg);
            assert!(
                sink.ev[sink.n - 1].off == S::LSTART[cut] as u64,
                "byte count after stop-on-nonmatch equals the slice strategy's"
            );
        }
        if sink.n >= S::NL + 2 {
            delivered_all = true;
        }
        std::mem::forget(lb);
        f += 1;
    }
    kani::cover!(delivered_all, "reach-end");
    std::mem::forget(searcher);
}

/// One Searcher-owned line buffer reused for two consecutive searches (as
/// `Searcher::search_reader` does for every file): the second search must
/// report exactly what the first did, including offsets and the byte count.
pub(crate) fn c02_reader_reuse<S: Shape>() {
    let cfg = c02_ctx_cfg();
    let hit = any_hits::<S>();
    let matcher = PlainMatcher::new::<S>(hit);
    let searcher = build_searcher::<S>(&cfg, false);
    let (want, complete) = model_events::<S>(&hit, &cfg);
    let mut lb = LineBufferBuilder::new()
        .capacity(2)
        .line_terminator(term_of::<S>().as_byte())
        .build();
    let mut round = 0;
    while round < 2 {
        let mut sink = RecSink::new(S::HAY);
        let r = {
            let frag = FragReader { hay: S::HAY, pos: 0, calls: 0, chunk: [3; MAXREADS], err_at: usize::MAX, err_interrupted: false };
            let rdr = LineBufferReader::new(frag, &mut lb);
            ReadByLine::new(&searcher, &matcher, rdr, &mut sink).run()
        };
        assert!(r.is_ok(), "search returns Ok");
        assert_log_is_model(&sink, &want, complete, evcap::<S>());
        round += 1;
    }
    kani::cover!(true, "reach-end");
    std::mem::forget(lb);
    std::mem::forget(searcher);
}

fn c02_ctx_cfg() -> Cfg {
    let mut cfg = any_cfg(1);
    cfg.passthru = false;
    cfg.stop_nm = false;
    cfg
}

/// 1-byte capacity, 1-byte reads (a roll and a grow for every byte)
pub(crate) fn c02_reader_ctx_tiny<S: Shape>() {
    c02_reader_body::<S>(c02_ctx_cfg(), 0)
}
/// capacity 2, 3-byte reads
pub(crate) fn c02_reader_ctx_mid<S: Shape>() {
    c02_reader_body::<S>(c02_ctx_cfg(), 1)
}
/// capacity 4, 2-byte reads
pub(crate) fn c02_reader_ctx_wide<S: Shape>() {
    c02_reader_body::<S>(c02_ctx_cfg(), 2)
}

pub(crate) fn c02_reader_stop<S: Shape>() {
    let mut cfg = any_cfg(1);
    cfg.passthru = false;
    cfg.stop_nm = true;
    c02_reader_body::<S>(cfg, 0)
}

pub(crate) fn c02_reader_passthru<S: Shape>() {
    let mut cfg = any_cfg(0);
    cfg.passthru = true;
    cfg.stop_nm = false;
    c02_reader_body::<S>(cfg, 1)
}

include!("c13.rs");
include!("c14.rs");

include!("shapes_gen.rs");
