// Kani harnesses living in a child module of crate::searcher::core.
// The generic bodies below are instantiated once per shape by the generated
// file shapes_gen.rs (written into the scratch copy of /verif/kani by
// lib/rgverif/shapes.py on every run).

include!("common.rs");
include!("c16.rs");

// ------------------------------------------------------------ C03 / C01
// Slow line path end to end (SliceByLine::run, the strategy `search_slice`
// selects for a non-multi-line search), result == grep model.  The
// configuration space is split into three variants so that the flags that
// change the *control skeleton* of the search loop (passthru, stop-on-nonmatch)
// are concrete per variant while everything else stays symbolic; all
// combinations are covered by the union of the variants.
fn c03_slice_body<S: Shape>(cfg: Cfg) {
    let hit = any_hits::<S>();
    let matcher = PlainMatcher::new::<S>(hit);
    let searcher = build_searcher::<S>(&cfg, false);
    let mut sink = RecSink::new(S::HAY);
    let r = SliceByLine::new(&searcher, &matcher, S::HAY, &mut sink).run();
    assert!(r.is_ok(), "search returns Ok");
    let (want, count_known) = model_events::<S>(&hit, &cfg);
    assert_log_is_model(&sink, &want, count_known, evcap::<S>());
    if !count_known {
        let (_k, cut, _s) = model_lines::<S>(&hit, &cfg);
        assert!(
            sink.ev[sink.n - 1].off == S::LSTART[cut] as u64,
            "slice strategy: byte count after stop-on-nonmatch is the end of the cut line"
        );
    }
    // single cover (each satisfied cover costs CBMC one full trace build):
    // the end is reached in a run that delivered every line of the shape
    kani::cover!(sink.n >= S::NL + 2, "reach-end");
    std::mem::forget(searcher);
}

/// contexts A,B in 0..=2, invert, line numbers symbolic
pub(crate) fn c03_slice_ctx<S: Shape>() {
    let mut cfg = any_cfg(2);
    cfg.passthru = false;
    cfg.stop_nm = false;
    c03_slice_body::<S>(cfg)
}

/// stop-on-nonmatch on; A,B in 0..=1, invert, line numbers symbolic
pub(crate) fn c03_slice_stop<S: Shape>() {
    let mut cfg = any_cfg(1);
    cfg.passthru = false;
    cfg.stop_nm = true;
    c03_slice_body::<S>(cfg)
}

/// passthru on (contexts are zeroed by the builder); invert, line numbers,
/// stop-on-nonmatch symbolic
pub(crate) fn c03_slice_passthru<S: Shape>() {
    let mut cfg = any_cfg(1);
    cfg.passthru = true;
    c03_slice_body::<S>(cfg)
}

// ------------------------------------------------------------ C03 / C01, fast line path
// The matcher declares the line terminator, so Core takes match_by_line_fast /
// find_by_line_fast / match_by_line_fast_invert (and switches to the slow loop
// after the first match under stop-on-nonmatch).  On this path the scan
// position depends on WHICH lines match, so with a symbolic hit table every
// nested loop is unrolled to its bound at every level (DESIGN.md section 0:
// does not terminate).  The hit table is therefore the second enumerated axis
// here: the harness loops over every hit pattern of the shape, over
// invert / stop-on-nonmatch, and over where in the line the matcher reports
// its offset (start or end of content), all concrete per iteration, so the
// search's control flow folds; A, B in 0..=2, line numbering and (C16) the
// stop/error index stay symbolic and are decided by the solver.
// `mode`: 0 = Confirmed offsets; 1 = Candidate offsets, candidates == hits;
// 2 = Candidate offsets, EVERY line is a candidate (maximal false positives).
fn fast_matcher<S: Shape>(pat: usize, mode: u8, at_end: bool) -> Option<LtMatcher> {
    let mut hit = [false; MAXL];
    let mut cand = [false; MAXL];
    let mut moff = [0usize; MAXL];
    let mut empty_seen = false;
    let mut empty_val = false;
    let mut k = 0;
    while k < S::NL {
        hit[k] = (pat >> k) & 1 == 1;
        if S::CLEN[k] == 0 {
            // lines with identical (empty) content share one answer
            if empty_seen && empty_val != hit[k] {
                return None;
            }
            empty_seen = true;
            empty_val = hit[k];
        }
        cand[k] = hit[k] || mode == 2;
        moff[k] = if at_end { S::CLEN[k] } else { 0 };
        k += 1;
    }
    Some(LtMatcher {
        plain: PlainMatcher {
            hit,
            hit_empty: empty_val,
            raw: false,
            termbyte: term_of::<S>().as_byte(),
            nl: S::NL,
        },
        cand,
        moff,
        confirm: mode == 0,
        n: S::HAY.len(),
        lstart: S::LSTART,
        term: term_of::<S>(),
    })
}

/// One harness per matcher mode.  Enumerated in-harness (concrete per
/// iteration, so the search's control flow folds): hit pattern (all 2^NL),
/// invert, stop-on-nonmatch, offset position, and (A,B) from a small list.
/// Symbolic (decided by the solver): whether line numbers are on, and the
/// index k of the sink call that refuses (stop) or fails (error) -- k beyond
/// the stream means an uninterrupted run, which must equal the grep model
/// (C03/C01); k inside it must yield the prefix (C16).
/// `ks`: None = uninterrupted runs only (== grep model);  Some(fail) = in
/// addition every sink-call index k at which the sink refuses (fail=false) or
/// fails (fail=true) is enumerated and the prefix property checked.  (A
/// SYMBOLIC k does not terminate on this path: the fast loop's result enum
/// becomes a symbolic tag and symex then also explores the switch-to-slow arm
/// from a symbolic position -- measured: out of memory after 9 minutes for a
/// single 2-line pattern.)
fn fast_enum<S: Shape>(
    mode: u8,
    invs: &[bool],
    stops: &[bool],
    at_ends: &[bool],
    abs: &[(usize, usize)],
    ks: Option<bool>,
) {
    let mut cfg = Cfg { a: 0, b: 0, invert: false, passthru: false, lnum: kani::any(), stop_nm: false };
    let mut searcher = build_searcher::<S>(&cfg, false);
    let mut delivered_all = false;
    for &inv in invs {
        for &stop in stops {
            for &at_end in at_ends {
                for &(a, b) in abs {
                    cfg.invert = inv;
                    cfg.stop_nm = stop;
                    cfg.a = a;
                    cfg.b = b;
                    // same object the builder produced; only these fields are switched
                    searcher.config.invert_match = inv;
                    searcher.config.stop_on_nonmatch = stop;
                    searcher.config.after_context = a;
                    searcher.config.before_context = b;
                    let mut pat = 0;
                    while pat < (1usize << S::NL) {
                        if let Some(matcher) = fast_matcher::<S>(pat, mode, at_end) {
                            let (full, count_known) = model_events::<S>(&matcher.plain.hit, &cfg);
                            let mut sink = RecSink::new(S::HAY);
                            let r = SliceByLine::new(&searcher, &matcher, S::HAY, &mut sink).run();
                            assert!(r.is_ok(), "search returns Ok");
                            assert_log_is_model(&sink, &full, count_known, evcap::<S>());
                            if sink.n >= S::NL + 2 {
                                delivered_all = true;
                            }
                            if let Some(fail) = ks {
                                let mut k = 0;
                                while k + 1 < full.n {
                                    let mut sink = RecSink::new(S::HAY);
                                    sink.ctl = true;
                                    if fail {
                                        sink.fail_at = k;
                                    } else {
                                        sink.stop_at = k;
                                    }
                                    let r = SliceByLine::new(&searcher, &matcher, S::HAY, &mut sink).run();
                                    check_interrupted::<S>(&sink, &full, r.is_err(), k, fail);
                                    k += 1;
                                }
                            }
                        }
                        pat += 1;
                    }
                }
            }
        }
    }
    kani::cover!(delivered_all, "reach-end");
    std::mem::forget(searcher);
}

/// Confirmed offsets (reported at the start of the content), with and without
/// inversion, contexts (0,0), (1,1), (2,0), (0,2)
pub(crate) fn c03_fast_confirmed<S: Shape>() {
    fast_enum::<S>(0, &[false, true], &[false], &[false], &[(0, 0), (1, 1), (2, 0), (0, 2)], None)
}
/// every line is a Candidate (offset reported at the end of the content)
pub(crate) fn c03_fast_candidate_all<S: Shape>() {
    fast_enum::<S>(2, &[false, true], &[false], &[true], &[(0, 0), (1, 1), (2, 1)], None)
}
/// stop-on-nonmatch on: the fast loop hands over to the slow loop after the
/// first match; Candidate offsets (candidates == hits)
pub(crate) fn c03_fast_stop<S: Shape>() {
    fast_enum::<S>(1, &[false, true], &[true], &[false, true], &[(0, 0), (1, 1)], None)
}
/// C16 on the fast path: sink refuses at every call index
pub(crate) fn c16_fast_refuse<S: Shape>() {
    fast_enum::<S>(0, &[false, true], &[false], &[false], &[(1, 1)], Some(false))
}
/// C16 on the fast path: sink fails at every call index
pub(crate) fn c16_fast_error<S: Shape>() {
    fast_enum::<S>(2, &[false, true], &[false], &[true], &[(1, 1)], Some(true))
}

/// find_by_line_fast alone, from an arbitrary line-start position, with fully
/// SYMBOLIC hit / candidate / offset tables and reporting mode: returns the
/// first line at or after the position that matches (Confirmed: hit; Candidate:
/// flagged and confirmed on the stripped line), as exactly that line's range.
pub(crate) fn c01_find_by_line_fast<S: Shape>() {
    let hit = any_hits::<S>();
    let matcher = LtMatcher::new::<S>(hit);
    let cfg = Cfg { a: 0, b: 0, invert: false, passthru: false, lnum: false, stop_nm: false };
    let searcher = build_searcher::<S>(&cfg, false);
    let mut sink = RecSink::new(S::HAY);
    let mut core = Core::new(&searcher, &matcher, &mut sink, true);
    let p: usize = kani::any();
    kani::assume(p <= S::NL);
    core.pos = S::LSTART[p];
    let got = core.find_by_line_fast(S::HAY);
    let mut want = usize::MAX;
    let mut k = 0;
    while k < S::NL {
        if k >= p && want == usize::MAX && hit[k] {
            want = k;
        }
        k += 1;
    }
    match got {
        Err(_) => assert!(false, "find_by_line_fast returns Ok"),
        Ok(None) => assert!(want == usize::MAX, "a matching line at or after the position is found"),
        Ok(Some(r)) => {
            assert!(want != usize::MAX, "only a matching line is returned");
            assert!(
                r.start() == S::LSTART[want] && r.end() == S::LSTART[want + 1],
                "the FIRST matching line at or after the position is returned, as that line's range"
            );
        }
    }
    kani::cover!(want != usize::MAX && want > p, "reach-end");
    std::mem::forget(searcher);
}

// ------------------------------------------------------------ C02
// Incremental reader strategy (ReadByLine over LineBufferReader) with symbolic
// read fragmentation (1..=3 bytes per read()) and symbolic initial buffer
// capacity 1..=4 with eager growth, against the same grep model the slice
// strategy is held to (c03_slice_*): reader == model == slice.
/// (initial capacity, bytes per read()): enumerated concretely.
const FRAGS: [(usize, u8); 3] = [(1, 1), (2, 3), (4, 2)];

/// concrete per-line answers from the bits of `pat` (None if two lines with
/// identical, empty content would get different answers)
fn plain_from_bits<X: Shape>(pat: usize) -> Option<PlainMatcher> {
    let mut hit = [false; MAXL];
    let mut empty_seen = false;
    let mut empty_val = false;
    let mut k = 0;
    while k < X::NL {
        hit[k] = (pat >> k) & 1 == 1;
        if X::CLEN[k] == 0 {
            if empty_seen && empty_val != hit[k] {
                return None;
            }
            empty_seen = true;
            empty_val = hit[k];
        }
        k += 1;
    }
    Some(PlainMatcher { hit, hit_empty: empty_val, raw: false, termbyte: term_of::<X>().as_byte(), nl: X::NL })
}

fn run_reader_on<S: Shape>(
    searcher: &Searcher,
    matcher: &PlainMatcher,
    lb: &mut crate::line_buffer::LineBuffer,
    frag: usize,
    sink: &mut RecSink,
) -> bool {
    let (_cap, chunk) = FRAGS[frag];
    let fr = FragReader { hay: S::HAY, pos: 0, calls: 0, chunk: [chunk; MAXREADS], err_at: usize::MAX, err_interrupted: false };
    let rdr = LineBufferReader::new(fr, lb);
    ReadByLine::new(searcher, matcher, rdr, sink).run().is_ok()
}

/// Incremental reader strategy (ReadByLine over LineBufferReader) end to end.
/// With a symbolic hit table or symbolic contexts the amount the searcher
/// consumes at each roll is symbolic and with it every position inside the line
/// buffer (measured: 16 of 20 harnesses time out at 20 min / run out of memory
/// even on 2-line inputs).  So, as on the fast path, the harness ENUMERATES
/// (concrete per iteration) the hit pattern (all 2^lines), invert,
/// stop-on-nonmatch, passthru, (A,B) from a list and the fragmentation; line
/// numbering stays symbolic.  (Lemmas over the buffer mechanics with SYMBOLIC
/// bytes and read sizes exist in line_buffer.rs but do not finish; they are not
/// registered and nothing is claimed from them.)
/// `det`: 0 = no binary detection (C02: == grep model == slice strategy; with
/// `reuse` the same line buffer serves two consecutive searches);
/// 1 = quit, 2 = convert (C14; T = the shape with every NUL converted).
fn reader_enum<S: Shape, T: Shape>(
    det: u8,
    frags: &[usize],
    abs: &[(usize, usize)],
    invs: &[bool],
    stops: &[bool],
    pts: &[bool],
    reuse: bool,
) {
    let lnum: bool = kani::any();
    let f = first_nul::<S>();
    let mut delivered_all = false;
    for &fr in frags {
        for &(a, b) in abs {
            for &inv in invs {
                for &stop in stops {
                    for &pt in pts {
                        if pt && (a > 0 || b > 0) {
                            continue;
                        }
                        let cfg = Cfg { a, b, invert: inv, passthru: pt, lnum, stop_nm: stop };
                        let sdet = match det {
                            1 => crate::searcher::BinaryDetection::quit(0),
                            2 => crate::searcher::BinaryDetection::convert(0),
                            _ => crate::searcher::BinaryDetection::none(),
                        };
                        let searcher = SearcherBuilder::new()
                            .line_terminator(term_of::<S>())
                            .invert_match(inv)
                            .line_number(lnum)
                            .after_context(a)
                            .before_context(b)
                            .passthru(pt)
                            .stop_on_nonmatch(stop)
                            .binary_detection(sdet)
                            .bom_sniffing(false)
                            .build();
                        let ldet = match det {
                            1 => crate::line_buffer::BinaryDetection::Quit(0),
                            2 => crate::line_buffer::BinaryDetection::Convert(0),
                            _ => crate::line_buffer::BinaryDetection::None,
                        };
                        let mut lb = LineBufferBuilder::new()
                            .capacity(FRAGS[fr].0)
                            .line_terminator(term_of::<S>().as_byte())
                            .binary_detection(ldet)
                            .build();
                        let mut pat = 0;
                        while pat < (1usize << T::NL) {
                            if let Some(matcher) = plain_from_bits::<T>(pat) {
                                let rounds = if reuse { 2 } else { 1 };
                                let mut round = 0;
                                while round < rounds {
                                    // delivered bytes are compared with the input (the
                                    // converted input in convert mode)
                                    let mut sink = RecSink::new(if det == 2 { T::HAY } else { S::HAY });
                                    let ok = run_reader_on::<S>(&searcher, &matcher, &mut lb, fr, &mut sink);
                                    assert!(ok, "search returns Ok");
                                    if det == 0 {
                                        let (want, complete) = model_events::<S>(&matcher.hit, &cfg);
                                        assert_log_is_model(&sink, &want, complete, evcap::<S>());
                                        if !complete {
                                            let (_k, cut, _s) = model_lines::<S>(&matcher.hit, &cfg);
                                            assert!(
                                                sink.ev[sink.n - 1].off == S::LSTART[cut] as u64,
                                                "byte count after stop-on-nonmatch equals the slice strategy's"
                                            );
                                        }
                                        if sink.n >= S::NL + 2 {
                                            delivered_all = true;
                                        }
                                    } else {
                                        assert!(!sink.saw_nul, "no NUL byte is delivered by the reader strategy");
                                        let (mut rest, _at, cnt, off) = strip_binary(&sink, evcap::<T>() + 1);
                                        if f == usize::MAX {
                                            assert!(cnt == 0, "no NUL, no binary notice");
                                            let (want, complete) = model_events::<T>(&matcher.hit, &cfg);
                                            assert_log_is_model(&rest, &want, complete, evcap::<T>());
                                        } else {
                                            assert!(cnt == 1, "exactly one binary notice");
                                            assert!(off == f as u64, "binary notice carries the first NUL's offset");
                                            let fin = rest.ev[rest.n - 1];
                                            assert!(fin.kind == K_FINISH, "completion is signalled");
                                            assert!(fin.aux == f as u64 + 1, "finish reports the binary offset");
                                            if det == 1 {
                                                // cut off at, or some whole lines before, the first NUL
                                                let (want, _c) = model_events_upto::<S>(&matcher.hit, &cfg, f);
                                                assert!(rest.n >= 2 && rest.n <= want.n, "no more is delivered than the search of the input before the first NUL");
                                                assert!(fin.off <= f as u64, "bytes searched do not exceed the first NUL's offset");
                                                rest.n -= 1;
                                                assert_prefix::<S>(&rest, &want, rest.n - 1);
                                                let mut i = 0;
                                                while i < evcap::<S>() {
                                                    if i < rest.n {
                                                        assert!(want.ev[i].kind != K_FINISH, "a prefix of the line events");
                                                    }
                                                    i += 1;
                                                }
                                            } else {
                                                let (want, complete) = model_events::<T>(&matcher.hit, &cfg);
                                                rest.ev[rest.n - 1].aux = 0;
                                                assert_log_is_model(&rest, &want, complete, evcap::<T>());
                                            }
                                        }
                                        delivered_all = true;
                                    }
                                    round += 1;
                                }
                            }
                            pat += 1;
                        }
                        std::mem::forget(lb);
                        std::mem::forget(searcher);
                    }
                }
            }
        }
    }
    kani::cover!(delivered_all, "reach-end");
}

// Each harness keeps its enumeration at <= 32 concrete runs for 3-line inputs:
// CBMC's memory grows with the number of runs (64 runs: > 6 GB).

/// capacity 1 / 1-byte reads (a roll and a grow at every byte); contexts (0,0),(1,1)
pub(crate) fn c02_reader_tiny<S: Shape>() {
    reader_enum::<S, S>(0, &[0], &[(0, 0), (1, 1)], &[false], &[false], &[false], false)
}
/// same, inverted
pub(crate) fn c02_reader_tiny_inv<S: Shape>() {
    reader_enum::<S, S>(0, &[0], &[(0, 0), (1, 1)], &[true], &[false], &[false], false)
}
/// capacity 2 / 3-byte reads; asymmetric contexts; stop-on-nonmatch off/on
pub(crate) fn c02_reader_wide<S: Shape>() {
    reader_enum::<S, S>(0, &[1], &[(1, 0), (0, 1)], &[false], &[false, true], &[false], false)
}
/// capacity 4 / 2-byte reads; asymmetric contexts; stop-on-nonmatch off/on
pub(crate) fn c02_reader_wide2<S: Shape>() {
    reader_enum::<S, S>(0, &[2], &[(1, 0), (0, 1)], &[false], &[false, true], &[false], false)
}
/// passthru (with and without invert / stop-on-nonmatch)
pub(crate) fn c02_reader_passthru<S: Shape>() {
    reader_enum::<S, S>(0, &[0], &[(0, 0)], &[false, true], &[false, true], &[true], false)
}
/// one line buffer reused for two consecutive searches (as Searcher does per file)
pub(crate) fn c02_reader_reuse<S: Shape>() {
    reader_enum::<S, S>(0, &[1], &[(1, 1)], &[false], &[false], &[false], true)
}
/// C14: quit detection through the reader, capacity 1 / 1-byte reads
pub(crate) fn c14_reader_quit<S: Shape>() {
    reader_enum::<S, S>(1, &[0], &[(0, 0), (1, 1)], &[false, true], &[false], &[false], false)
}
/// C14: quit detection, capacity 4 / 2-byte reads
pub(crate) fn c14_reader_quit_wide<S: Shape>() {
    reader_enum::<S, S>(1, &[2], &[(0, 0), (1, 1)], &[false, true], &[false], &[false], false)
}
/// C14: convert detection through the reader (T = S with NULs converted), capacity 1 / 1-byte reads, no invert
pub(crate) fn c14_reader_convert<S: Shape, T: Shape>() {
    reader_enum::<S, T>(2, &[0], &[(0, 0), (1, 1)], &[false], &[false], &[false], false)
}
/// C14: convert detection, capacity 2 / 3-byte reads, contexts (1,1), with and without invert
pub(crate) fn c14_reader_convert_wide<S: Shape, T: Shape>() {
    reader_enum::<S, T>(2, &[1], &[(1, 1)], &[false, true], &[false], &[false], false)
}

include!("c13.rs");
include!("c14.rs");

include!("shapes_gen.rs");
