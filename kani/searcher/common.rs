// Shared harness furniture for the grep-searcher Kani harnesses.
// Included (include!) into a child module of crate::searcher::core, so
// `use super::*` has brought core.rs's own imports and private items into
// scope.  Nothing here casts a pointer to an integer, and no matcher scans
// bytes (DESIGN.md section 0).

use crate::line_buffer::{LineBufferBuilder, LineBufferReader};
use crate::searcher::glue::{MultiLine, ReadByLine, SliceByLine};
use crate::searcher::SearcherBuilder;
use grep_matcher::{LineTerminator, Match, NoCaptures};
/// Matcher error type that is LARGER than any Ok payload, so that
/// Result<Option<_>, FatErr> carries its own tag instead of a niche in the
/// payload: with a niche the tag becomes a symbolic ite and symex can no longer
/// prune the `?` error paths (measured: 2-line search > 300 s vs 10 s).
#[derive(Debug)]
pub(crate) struct FatErr(pub [u64; 4]);
impl std::fmt::Display for FatErr {
    fn fmt(&self, _f: &mut std::fmt::Formatter<'_>) -> std::fmt::Result {
        Ok(())
    }
}
type NoError = FatErr;

pub(crate) const MAXL: usize = 5; // max lines in a shape
pub(crate) const MAXEV: usize = 20; // max events in a log

pub(crate) const T_LF: u8 = 0;
pub(crate) const T_CRLF: u8 = 1;
pub(crate) const T_NUL: u8 = 2;

/// A concrete input shape (DESIGN.md 1.4): line i's content is the letter
/// 'a'+i repeated 0..2 times, followed by its terminator (possibly missing on
/// the last line).  Everything else a property quantifies over is symbolic.
pub(crate) trait Shape {
    const HAY: &'static [u8];
    const NL: usize;
    /// NL+1 entries: start of every line, then HAY.len()
    const LSTART: &'static [usize];
    /// content length of each line (terminator excluded)
    const CLEN: &'static [usize];
    const TERM: u8;
}

pub(crate) fn term_of<S: Shape>() -> LineTerminator {
    match S::TERM {
        T_CRLF => LineTerminator::crlf(),
        T_NUL => LineTerminator::byte(0),
        _ => LineTerminator::byte(b'\n'),
    }
}

// ---------------------------------------------------------------- events

pub(crate) const K_BEGIN: u8 = 1;
pub(crate) const K_MATCH: u8 = 2;
pub(crate) const K_BEFORE: u8 = 3;
pub(crate) const K_AFTER: u8 = 4;
pub(crate) const K_OTHER: u8 = 5;
pub(crate) const K_BREAK: u8 = 6;
pub(crate) const K_BINARY: u8 = 7;
pub(crate) const K_FINISH: u8 = 8;

#[derive(Clone, Copy)]
pub(crate) struct Ev {
    pub kind: u8,
    /// absolute byte offset (match/context), binary offset, or byte count
    pub off: u64,
    pub len: usize,
    /// line number, 0 = none
    pub lnum: u64,
    /// delivered bytes equal HAY[off..off+len]
    pub ok: bool,
    /// finish only: binary_byte_offset + 1, 0 = none
    pub aux: u64,
}

pub(crate) const EV0: Ev =
    Ev { kind: 0, off: 0, len: 0, lnum: 0, ok: true, aux: 0 };

pub(crate) fn ev_eq(a: &Ev, b: &Ev) -> bool {
    a.kind == b.kind
        && a.off == b.off
        && a.len == b.len
        && a.lnum == b.lnum
        && a.ok == b.ok
        && a.aux == b.aux
}

#[derive(Debug)]
pub(crate) enum RecErrKind {
    Msg,
    Io,
    Config,
    Sink,
}
/// fat for the same reason as FatErr: keeps Result<bool, RecErr>'s tag concrete
#[derive(Debug)]
pub(crate) struct RecErr(pub RecErrKind, pub [u64; 2]);
#[allow(non_upper_case_globals)]
impl RecErr {
    pub(crate) const Msg: RecErr = RecErr(RecErrKind::Msg, [0; 2]);
    pub(crate) const Io: RecErr = RecErr(RecErrKind::Io, [0; 2]);
    pub(crate) const Config: RecErr = RecErr(RecErrKind::Config, [0; 2]);
    pub(crate) const Sink: RecErr = RecErr(RecErrKind::Sink, [0; 2]);
}

impl SinkError for RecErr {
    fn error_message<T: std::fmt::Display>(_m: T) -> RecErr {
        RecErr::Msg
    }
    fn error_io(e: std::io::Error) -> RecErr {
        std::mem::forget(e);
        RecErr::Io
    }
    fn error_config(e: crate::searcher::ConfigError) -> RecErr {
        std::mem::forget(e);
        RecErr::Config
    }
}

/// Fixed-capacity event recorder.  `stop_at`: the call with this index
/// returns Ok(false); `fail_at`: returns Err.  usize::MAX = never.
pub(crate) struct RecSink {
    pub ev: [Ev; MAXEV],
    pub n: usize,
    pub overflow: bool,
    pub ctl: bool,
    pub stop_at: usize,
    pub fail_at: usize,
    pub hay: &'static [u8],
    /// delivered bytes contained a NUL
    pub saw_nul: bool,
}

impl RecSink {
    pub(crate) fn new(hay: &'static [u8]) -> RecSink {
        RecSink {
            ev: [EV0; MAXEV],
            n: 0,
            overflow: false,
            ctl: false,
            stop_at: usize::MAX,
            fail_at: usize::MAX,
            hay,
            saw_nul: false,
        }
    }

    fn push(&mut self, e: Ev) -> Result<bool, RecErr> {
        let idx = self.n;
        if idx < MAXEV {
            self.ev[idx] = e;
        } else {
            self.overflow = true;
        }
        self.n = idx + 1;
        // `ctl` is a concrete flag: when no stop/failure is injected the
        // answer is the constant Ok(true), so symex can prune the
        // early-exit paths instead of carrying them as symbolic guards.
        if !self.ctl {
            return Ok(true);
        }
        if idx == self.fail_at {
            return Err(RecErr::Sink);
        }
        Ok(idx != self.stop_at)
    }

    fn same_bytes(&mut self, off: u64, bytes: &[u8]) -> bool {
        let off = off as usize;
        if off > self.hay.len() || bytes.len() > self.hay.len() - off {
            return false;
        }
        let mut k = 0;
        let mut ok = true;
        while k < bytes.len() {
            if bytes[k] != self.hay[off + k] {
                ok = false;
            }
            if bytes[k] == 0 {
                self.saw_nul = true;
            }
            k += 1;
        }
        ok
    }
}

impl Sink for RecSink {
    type Error = RecErr;

    fn matched(
        &mut self,
        _s: &Searcher,
        m: &SinkMatch<'_>,
    ) -> Result<bool, RecErr> {
        let ok = self.same_bytes(m.absolute_byte_offset(), m.bytes());
        self.push(Ev {
            kind: K_MATCH,
            off: m.absolute_byte_offset(),
            len: m.bytes().len(),
            lnum: m.line_number().unwrap_or(0),
            ok,
            aux: 0,
        })
    }

    fn context(
        &mut self,
        _s: &Searcher,
        c: &SinkContext<'_>,
    ) -> Result<bool, RecErr> {
        let ok = self.same_bytes(c.absolute_byte_offset(), c.bytes());
        let kind = match *c.kind() {
            SinkContextKind::Before => K_BEFORE,
            SinkContextKind::After => K_AFTER,
            SinkContextKind::Other => K_OTHER,
        };
        self.push(Ev {
            kind,
            off: c.absolute_byte_offset(),
            len: c.bytes().len(),
            lnum: c.line_number().unwrap_or(0),
            ok,
            aux: 0,
        })
    }

    fn context_break(&mut self, _s: &Searcher) -> Result<bool, RecErr> {
        self.push(Ev { kind: K_BREAK, ..EV0 })
    }

    fn binary_data(
        &mut self,
        _s: &Searcher,
        off: u64,
    ) -> Result<bool, RecErr> {
        self.push(Ev { kind: K_BINARY, off, ..EV0 })
    }

    fn begin(&mut self, _s: &Searcher) -> Result<bool, RecErr> {
        self.push(Ev { kind: K_BEGIN, ..EV0 })
    }

    fn finish(&mut self, _s: &Searcher, f: &SinkFinish) -> Result<(), RecErr> {
        let aux = match f.binary_byte_offset() {
            None => 0,
            Some(o) => o + 1,
        };
        self.push(Ev { kind: K_FINISH, off: f.byte_count(), aux, ..EV0 })
            .map(|_| ())
    }
}

/// Upper bound on the number of events a line-oriented search of shape S can
/// deliver (begin, finish, binary notice, every line, a break between lines).
pub(crate) fn evcap<S: Shape>() -> usize {
    let c = 2 * S::NL + 3;
    if c < MAXEV { c } else { MAXEV }
}

/// Compare the first `upto` events of two logs (`cap`: concrete loop bound).
pub(crate) fn logs_agree(a: &RecSink, b: &RecSink, upto: usize, cap: usize) -> bool {
    let mut i = 0;
    let mut ok = true;
    while i < cap {
        if i < upto && !ev_eq(&a.ev[i], &b.ev[i]) {
            ok = false;
        }
        i += 1;
    }
    ok
}

// ---------------------------------------------------------------- config

#[derive(Clone, Copy)]
pub(crate) struct Cfg {
    pub a: usize,
    pub b: usize,
    pub invert: bool,
    pub passthru: bool,
    pub lnum: bool,
    pub stop_nm: bool,
}

pub(crate) fn any_cfg(maxctx: usize) -> Cfg {
    let a: usize = kani::any();
    let b: usize = kani::any();
    kani::assume(a <= maxctx && b <= maxctx);
    Cfg {
        a,
        b,
        invert: kani::any(),
        passthru: kani::any(),
        lnum: kani::any(),
        stop_nm: kani::any(),
    }
}

pub(crate) fn build_searcher<S: Shape>(cfg: &Cfg, multi_line: bool) -> Searcher {
    SearcherBuilder::new()
        .line_terminator(term_of::<S>())
        .invert_match(cfg.invert)
        .line_number(cfg.lnum)
        .after_context(cfg.a)
        .before_context(cfg.b)
        .passthru(cfg.passthru)
        .stop_on_nonmatch(cfg.stop_nm)
        .multi_line(multi_line)
        .bom_sniffing(false)
        .build()
}

// ---------------------------------------------------------------- matchers

/// Symbolic per-line answers.  hit[i]: "the pattern matches line i's content".
/// Lines with empty content necessarily share one answer (a matcher sees only
/// the bytes), so hit[i] is constrained equal for all of them.
pub(crate) fn any_hits<S: Shape>() -> [bool; MAXL] {
    let hit: [bool; MAXL] = kani::any();
    let hit_empty: bool = kani::any();
    let mut i = 0;
    while i < S::NL {
        if S::CLEN[i] == 0 {
            kani::assume(hit[i] == hit_empty);
        }
        i += 1;
    }
    hit
}

fn empty_hit<S: Shape>(hit: &[bool; MAXL]) -> bool {
    let mut i = 0;
    while i < S::NL {
        if S::CLEN[i] == 0 {
            return hit[i];
        }
        i += 1;
    }
    false
}

/// "Plain" personality: no line terminator, no non-matching bytes: drives the
/// slow line path.  It is handed one stripped line at a time and answers from
/// the table, identifying the line by its first content byte ('a'+i).
/// If it is ever handed a slice that still ends in the terminator byte the
/// searcher has broken its side of the contract ("terminator removed") and the
/// answer is an unconstrained symbolic value (`raw`).
pub(crate) struct PlainMatcher {
    pub hit: [bool; MAXL],
    pub hit_empty: bool,
    pub raw: bool,
    pub termbyte: u8,
    pub nl: usize,
}

impl PlainMatcher {
    pub(crate) fn new<S: Shape>(hit: [bool; MAXL]) -> PlainMatcher {
        PlainMatcher {
            hit,
            hit_empty: empty_hit::<S>(&hit),
            raw: kani::any(),
            termbyte: term_of::<S>().as_byte(),
            nl: S::NL,
        }
    }
}

impl Matcher for PlainMatcher {
    type Captures = NoCaptures;
    type Error = NoError;

    fn find_at(
        &self,
        hay: &[u8],
        at: usize,
    ) -> Result<Option<Match>, NoError> {
        let n = hay.len();
        let yes = if n == 0 {
            self.hit_empty
        } else if hay[n - 1] == self.termbyte {
            self.raw
        } else {
            let tag = hay[0];
            let idx = tag.wrapping_sub(b'a') as usize;
            if idx < self.nl {
                self.hit[idx]
            } else {
                self.raw
            }
        };
        if yes && at <= n {
            Ok(Some(Match::new(at, at)))
        } else {
            Ok(None)
        }
    }

    fn new_captures(&self) -> Result<NoCaptures, NoError> {
        Ok(NoCaptures::new())
    }
}

// ---------------------------------------------------------------- readers

/// io::Read over HAY returning at most chunk[j] in 1..=3 bytes at call j
/// (symbolic).  Optionally fails at call `err_at` with a const-built error.
pub(crate) const MAXREADS: usize = 12;

pub(crate) struct FragReader {
    pub hay: &'static [u8],
    pub pos: usize,
    pub calls: usize,
    pub chunk: [u8; MAXREADS],
    pub err_at: usize,
    pub err_interrupted: bool,
}

impl FragReader {
    pub(crate) fn any(hay: &'static [u8]) -> FragReader {
        let chunk: [u8; MAXREADS] = kani::any();
        let mut i = 0;
        while i < MAXREADS {
            kani::assume(chunk[i] >= 1 && chunk[i] <= 3);
            i += 1;
        }
        FragReader {
            hay,
            pos: 0,
            calls: 0,
            chunk,
            err_at: usize::MAX,
            err_interrupted: false,
        }
    }
}

impl std::io::Read for FragReader {
    fn read(&mut self, buf: &mut [u8]) -> std::io::Result<usize> {
        let call = self.calls;
        self.calls += 1;
        if call == self.err_at {
            let kind = if self.err_interrupted {
                std::io::ErrorKind::Interrupted
            } else {
                std::io::ErrorKind::Other
            };
            return Err(std::io::Error::from(kind));
        }
        let want = if call < MAXREADS { self.chunk[call] as usize } else { 3 };
        let left = self.hay.len() - self.pos;
        let mut n = want;
        if n > left {
            n = left;
        }
        if n > buf.len() {
            n = buf.len();
        }
        let mut k = 0;
        while k < n {
            buf[k] = self.hay[self.pos + k];
            k += 1;
        }
        self.pos += n;
        Ok(n)
    }
}

// ---------------------------------------------------------------- model

/// The grep model of C03, written from the property text (not from core.rs):
/// line i is *selected* iff hit[i] != invert; an unselected line is delivered
/// as context iff it lies within A lines after or B lines before a selected
/// line (passthru: every line); stop-on-nonmatch cuts the input after the
/// first unselected line that follows a selected one.
/// Returns (kind per line, number of lines processed, stopped early).
pub(crate) fn model_lines<S: Shape>(
    hit: &[bool; MAXL],
    cfg: &Cfg,
) -> ([u8; MAXL], usize, bool) {
    model_lines_n::<S>(hit, cfg, S::NL)
}

/// the same model over the first `nl` lines of the shape only
pub(crate) fn model_lines_n<S: Shape>(
    hit: &[bool; MAXL],
    cfg: &Cfg,
    nl: usize,
) -> ([u8; MAXL], usize, bool) {
    // every loop here has a CONCRETE bound and symbolic guards, so
    // symex folds the loop structure whatever the symbolic values are
    let mut sel = [false; MAXL];
    let mut i = 0;
    while i < nl {
        sel[i] = hit[i] != cfg.invert;
        i += 1;
    }
    let mut cut = nl;
    let mut stopped = false;
    if cfg.stop_nm {
        let mut seen = false;
        let mut i = 0;
        while i < nl {
            if sel[i] {
                seen = true;
            } else if seen && !stopped {
                cut = i + 1;
                stopped = true;
            }
            i += 1;
        }
    }
    let (a, b) = if cfg.passthru { (0, 0) } else { (cfg.a, cfg.b) };
    let mut kind = [0u8; MAXL];
    let mut i = 0;
    while i < nl {
        if i < cut {
            if sel[i] {
                kind[i] = K_MATCH;
            } else if cfg.passthru {
                kind[i] = K_OTHER;
            } else {
                let mut after = false;
                let mut before = false;
                let mut j = 0;
                while j < nl {
                    if j < cut && sel[j] {
                        if j < i && i - j <= a {
                            after = true;
                        }
                        if j > i && j - i <= b {
                            before = true;
                        }
                    }
                    j += 1;
                }
                kind[i] = if after {
                    K_AFTER
                } else if before {
                    K_BEFORE
                } else {
                    0
                };
            }
        }
        i += 1;
    }
    (kind, cut, stopped)
}

/// Expected event stream for a complete line-oriented search.
/// Second result: whether the final byte count is fixed by the property
/// (only for searches that run to completion).
pub(crate) fn model_events<S: Shape>(
    hit: &[bool; MAXL],
    cfg: &Cfg,
) -> (RecSink, bool) {
    model_events_upto::<S>(hit, cfg, S::HAY.len())
}

/// Expected event stream when only the first `upto` bytes of the shape are
/// searched (the input is cut there: a last line may be partial).
pub(crate) fn model_events_upto<S: Shape>(
    hit: &[bool; MAXL],
    cfg: &Cfg,
    upto: usize,
) -> (RecSink, bool) {
    let mut nl_eff = 0;
    let mut i = 0;
    while i < S::NL {
        if S::LSTART[i] < upto {
            nl_eff = i + 1;
        }
        i += 1;
    }
    let (kind, _cut, stopped) = model_lines_n::<S>(hit, cfg, nl_eff);
    let mut out = RecSink::new(S::HAY);
    let _ = out.push(Ev { kind: K_BEGIN, ..EV0 });
    let any_ctx = !cfg.passthru && (cfg.a > 0 || cfg.b > 0);
    let mut prev: usize = usize::MAX;
    let mut i = 0;
    while i < S::NL {
        if i < nl_eff && kind[i] != 0 {
            if any_ctx && prev != usize::MAX && i > prev + 1 {
                let _ = out.push(Ev { kind: K_BREAK, ..EV0 });
            }
            let end = if S::LSTART[i + 1] < upto { S::LSTART[i + 1] } else { upto };
            let _ = out.push(Ev {
                kind: kind[i],
                off: S::LSTART[i] as u64,
                len: end - S::LSTART[i],
                lnum: if cfg.lnum { (i + 1) as u64 } else { 0 },
                ok: true,
                aux: 0,
            });
            prev = i;
        }
        i += 1;
    }
    let _ = out.push(Ev {
        kind: K_FINISH,
        off: upto as u64,
        ..EV0
    });
    (out, !stopped)
}

/// non-asserting comparison (complete runs)
pub(crate) fn log_is_model(real: &RecSink, want: &RecSink, cap: usize) -> bool {
    if real.overflow || want.overflow || real.n != want.n {
        return false;
    }
    let mut ok = true;
    let mut i = 0;
    while i < cap {
        if i < want.n {
            let (r, w) = (&real.ev[i], &want.ev[i]);
            if r.kind != w.kind || r.off != w.off {
                ok = false;
            }
            if w.kind != K_FINISH && (r.len != w.len || r.lnum != w.lnum || !r.ok) {
                ok = false;
            }
        }
        i += 1;
    }
    ok
}

/// real log == model log (byte count compared only when the property fixes it)
pub(crate) fn assert_log_is_model(
    real: &RecSink,
    want: &RecSink,
    count_known: bool,
    cap: usize,
) {
    assert!(!real.overflow && !want.overflow, "event log capacity");
    assert!(real.n <= cap && want.n <= cap, "event bound");
    assert!(real.n == want.n, "number of delivered events equals the grep model");
    let mut i = 0;
    while i < cap {
        if i >= want.n {
            i += 1;
            continue;
        }
        let (r, w) = (&real.ev[i], &want.ev[i]);
        assert!(r.kind == w.kind, "event kind equals the grep model");
        if w.kind == K_FINISH {
            if count_known {
                assert!(r.off == w.off, "complete search reports full length");
            }
        } else {
            assert!(r.off == w.off, "absolute byte offset is the line's true offset");
            assert!(r.len == w.len, "delivered range is exactly the line");
            assert!(r.lnum == w.lnum, "line number is the line's true 1-based index");
            assert!(r.ok, "delivered bytes are the input's bytes");
        }
        i += 1;
    }
}

// ---------------------------------------------------------------- fast path

/// "Line-terminator" personality: declares the shape's line terminator, so
/// the searcher takes the FAST line path.  `find_candidate_line` is handed a
/// suffix of the buffer that starts at a line start; the matcher learns that
/// start from the suffix's length (the buffer is the whole shape) and answers
/// from per-line tables: hit[k] (line k matches), cand[k] >= hit[k] (a
/// prefilter may also flag non-matching lines), moff[k] (where in line k's
/// content the reported offset falls).  `confirm` selects whether it reports
/// Confirmed (no prefilter) or Candidate offsets, as RegexMatcher does.
/// This family is line-local by construction (H-LOC is the obligation that
/// ties RegexMatcher to it).
pub(crate) struct LtMatcher {
    pub plain: PlainMatcher,
    pub cand: [bool; MAXL],
    pub moff: [usize; MAXL],
    pub confirm: bool,
    pub n: usize,
    pub lstart: &'static [usize],
    pub term: LineTerminator,
}

impl LtMatcher {
    pub(crate) fn new<S: Shape>(hit: [bool; MAXL]) -> LtMatcher {
        let mut cand = [false; MAXL];
        let mut moff = [0usize; MAXL];
        let mut k = 0;
        while k < S::NL {
            let c: bool = kani::any();
            cand[k] = c || hit[k];
            let m: usize = kani::any();
            kani::assume(m <= S::CLEN[k]);
            moff[k] = m;
            k += 1;
        }
        LtMatcher {
            plain: PlainMatcher::new::<S>(hit),
            cand,
            moff,
            confirm: kani::any(),
            n: S::HAY.len(),
            lstart: S::LSTART,
            term: term_of::<S>(),
        }
    }
}

impl Matcher for LtMatcher {
    type Captures = NoCaptures;
    type Error = FatErr;

    fn find_at(&self, hay: &[u8], at: usize) -> Result<Option<Match>, FatErr> {
        // only ever asked about one stripped line (candidate re-check, slow path)
        self.plain.find_at(hay, at)
    }

    fn new_captures(&self) -> Result<NoCaptures, FatErr> {
        Ok(NoCaptures::new())
    }

    fn line_terminator(&self) -> Option<LineTerminator> {
        Some(self.term)
    }

    fn find_candidate_line(
        &self,
        hay: &[u8],
    ) -> Result<Option<grep_matcher::LineMatchKind>, FatErr> {
        let pos = self.n - hay.len();
        let nl = self.plain.nl;
        let mut k = 0;
        let mut found = usize::MAX;
        while k < MAXL {
            if k < nl && found == usize::MAX && self.lstart[k] >= pos {
                let flagged = if self.confirm { self.plain.hit[k] } else { self.cand[k] };
                if flagged {
                    found = self.lstart[k] + self.moff[k] - pos;
                }
            }
            k += 1;
        }
        if found == usize::MAX {
            Ok(None)
        } else if self.confirm {
            Ok(Some(grep_matcher::LineMatchKind::Confirmed(found)))
        } else {
            Ok(Some(grep_matcher::LineMatchKind::Candidate(found)))
        }
    }
}
