// C16 -- stopping early or failing mid-stream yields a prefix of the full
// results.  The uninterrupted stream F is the grep model's (the real search is
// held equal to it by c03_slice_* / c02_reader_*); the interrupted run P must
// be F[0..=k] followed by exactly one `finish` (stop) or by nothing (error).

fn assert_prefix<S: Shape>(p: &RecSink, f: &RecSink, upto_incl: usize) {
    // events 0..=upto_incl of P equal F's (byte count of finish excluded)
    let cap = evcap::<S>();
    let mut i = 0;
    while i < cap {
        if i <= upto_incl && i < f.n {
            let (r, w) = (&p.ev[i], &f.ev[i]);
            assert!(r.kind == w.kind, "interrupted run: event kind is the full run's");
            if w.kind != K_FINISH {
                assert!(
                    r.off == w.off && r.len == w.len && r.lnum == w.lnum && r.ok,
                    "interrupted run: event is the full run's"
                );
            }
        }
        i += 1;
    }
}

/// `k`: index of the sink call that refuses (stop) or fails (error).
fn check_interrupted<S: Shape>(
    p: &RecSink,
    f: &RecSink,
    res_is_err: bool,
    k: usize,
    fail: bool,
) {
    assert!(!p.overflow && !f.overflow, "event log capacity");
    if k >= f.n {
        // never triggered
        assert!(!res_is_err, "uninterrupted search returns Ok");
        assert!(p.n == f.n, "uninterrupted run delivers the full stream");
        assert_prefix::<S>(p, f, f.n);
    } else if fail {
        assert!(res_is_err, "the sink's error is returned to the caller");
        assert!(p.n == k + 1, "nothing is delivered after a sink error (no finish)");
        assert_prefix::<S>(p, f, k);
    } else if k == f.n - 1 {
        // the refusing call is `finish` itself, which cannot refuse
        assert!(!res_is_err, "stopped search returns Ok");
        assert!(p.n == f.n, "full stream");
        assert_prefix::<S>(p, f, f.n);
    } else {
        assert!(!res_is_err, "stopped search returns Ok");
        assert!(
            p.n == k + 2,
            "after a refused event exactly one more call is made"
        );
        assert_prefix::<S>(p, f, k);
        assert!(
            p.ev[k + 1].kind == K_FINISH,
            "completion is signalled exactly once after a requested stop"
        );
    }
}

fn c16_cfg(stop_nm: bool, passthru: bool) -> Cfg {
    let mut cfg = any_cfg(1);
    cfg.stop_nm = stop_nm;
    cfg.passthru = passthru;
    cfg
}

fn arm(sink: &mut RecSink, cap: usize) -> (usize, bool) {
    let k: usize = kani::any();
    kani::assume(k < cap);
    let fail: bool = kani::any();
    sink.ctl = true;
    if fail {
        sink.fail_at = k;
    } else {
        sink.stop_at = k;
    }
    (k, fail)
}

/// slice strategy, slow line path; stop or error at every event index
pub(crate) fn c16_slice<S: Shape>() {
    let cfg = c16_cfg(false, kani::any());
    let hit = any_hits::<S>();
    let matcher = PlainMatcher::new::<S>(hit);
    let searcher = build_searcher::<S>(&cfg, false);
    let (full, _) = model_events::<S>(&hit, &cfg);
    let mut sink = RecSink::new(S::HAY);
    let (k, fail) = arm(&mut sink, evcap::<S>());
    let r = SliceByLine::new(&searcher, &matcher, S::HAY, &mut sink).run();
    check_interrupted::<S>(&sink, &full, r.is_err(), k, fail);
    kani::cover!(k + 2 < full.n && !fail, "reach-end");
    std::mem::forget(searcher);
}

/// slice strategy, slow line path, CONCRETE contexts (A,B) = (0,1) and (1,0),
/// no invert, on longer inputs: a separator ahead of a before-context line
/// needs four lines (match, gap, context, match).  Hit table, stop index and
/// stop-vs-error stay symbolic.
fn c16_slice_fixed<S: Shape>(a: usize, b: usize) {
    let cfg = Cfg { a, b, invert: false, passthru: false, lnum: kani::any(), stop_nm: false };
    let hit = any_hits::<S>();
    let matcher = PlainMatcher::new::<S>(hit);
    let searcher = build_searcher::<S>(&cfg, false);
    let (full, _) = model_events::<S>(&hit, &cfg);
    let mut sink = RecSink::new(S::HAY);
    let (k, fail) = arm(&mut sink, evcap::<S>());
    let r = SliceByLine::new(&searcher, &matcher, S::HAY, &mut sink).run();
    check_interrupted::<S>(&sink, &full, r.is_err(), k, fail);
    kani::cover!(k + 2 < full.n && !fail, "reach-end");
    std::mem::forget(searcher);
}
pub(crate) fn c16_slice_before1<S: Shape>() {
    c16_slice_fixed::<S>(0, 1)
}
pub(crate) fn c16_slice_after1<S: Shape>() {
    c16_slice_fixed::<S>(1, 0)
}

/// incremental reader strategy: stop / sink error at every event index.
/// Hit pattern, contexts, invert, the stop index and stop-vs-error are
/// enumerated in-harness (see reader_enum in core.rs for why); line numbering
/// symbolic.  The expected stream is the grep model's, to which the
/// uninterrupted reader run is held equal by c02_reader_*.
fn c16_reader_enum<S: Shape>(fail: bool, abs: &[(usize, usize)], invs: &[bool]) {
    let lnum: bool = kani::any();
    let mut interrupted_mid = false;
    for &(a, b) in abs {
        for &inv in invs {
            let cfg = Cfg { a, b, invert: inv, passthru: false, lnum, stop_nm: false };
            let searcher = build_searcher::<S>(&cfg, false);
            let mut lb = LineBufferBuilder::new()
                .capacity(1)
                .line_terminator(term_of::<S>().as_byte())
                .build();
            let mut pat = 0;
            while pat < (1usize << S::NL) {
                if let Some(matcher) = plain_from_bits::<S>(pat) {
                    let (full, _) = model_events::<S>(&matcher.hit, &cfg);
                    let mut k = 0;
                    while k < evcap::<S>() {
                        if k < full.n {
                            let mut sink = RecSink::new(S::HAY);
                            sink.ctl = true;
                            if fail {
                                sink.fail_at = k;
                            } else {
                                sink.stop_at = k;
                            }
                            let r = {
                                let fr = FragReader { hay: S::HAY, pos: 0, calls: 0, chunk: [1; MAXREADS], err_at: usize::MAX, err_interrupted: false };
                                let rdr = LineBufferReader::new(fr, &mut lb);
                                ReadByLine::new(&searcher, &matcher, rdr, &mut sink).run()
                            };
                            check_interrupted::<S>(&sink, &full, r.is_err(), k, fail);
                            if k + 2 < full.n {
                                interrupted_mid = true;
                            }
                        }
                        k += 1;
                    }
                }
                pat += 1;
            }
            std::mem::forget(lb);
            std::mem::forget(searcher);
        }
    }
    kani::cover!(interrupted_mid, "reach-end");
}
pub(crate) fn c16_reader_stop<S: Shape>() {
    c16_reader_enum::<S>(false, &[(0, 0), (1, 1)], &[false, true])
}
pub(crate) fn c16_reader_error<S: Shape>() {
    c16_reader_enum::<S>(true, &[(0, 0), (1, 1)], &[false, true])
}

/// incremental reader: the source fails (Other or Interrupted) at read j:
/// the error is returned, nothing is delivered afterwards, no finish, and what
/// was delivered is a prefix of the full stream.  Enumerated as above; j and
/// the error kind are enumerated too.
pub(crate) fn c16_reader_ioerr<S: Shape>() {
    let lnum: bool = kani::any();
    let mut cut_mid = false;
    for &(a, b) in &[(0usize, 0usize), (1, 1)] {
        let cfg = Cfg { a, b, invert: false, passthru: false, lnum, stop_nm: false };
        let searcher = build_searcher::<S>(&cfg, false);
        let mut lb = LineBufferBuilder::new()
            .capacity(1)
            .line_terminator(term_of::<S>().as_byte())
            .build();
        let mut pat = 0;
        while pat < (1usize << S::NL) {
            if let Some(matcher) = plain_from_bits::<S>(pat) {
                let (full, _) = model_events::<S>(&matcher.hit, &cfg);
                let mut j = 0;
                // 1-byte reads: reads 0..len-1 return data, read len returns EOF
                while j <= S::HAY.len() {
                    for &intr in &[false, true] {
                        let mut sink = RecSink::new(S::HAY);
                        let mut frag = FragReader { hay: S::HAY, pos: 0, calls: 0, chunk: [1; MAXREADS], err_at: j, err_interrupted: intr };
                        let r = {
                            let rdr = LineBufferReader::new(&mut frag, &mut lb);
                            ReadByLine::new(&searcher, &matcher, rdr, &mut sink).run()
                        };
                        assert!(frag.calls > j, "the failing read was issued");
                        assert!(r.is_err(), "the source's error is returned to the caller");
                        assert!(sink.n >= 1 && sink.n < full.n, "strict prefix, no finish");
                        assert!(sink.ev[sink.n - 1].kind != K_FINISH, "finish is not signalled after an error");
                        assert_prefix::<S>(&sink, &full, sink.n - 1);
                        if sink.n >= 2 {
                            cut_mid = true;
                        }
                    }
                    j += 1;
                }
            }
            pat += 1;
        }
        std::mem::forget(lb);
        std::mem::forget(searcher);
    }
    kani::cover!(cut_mid, "reach-end");
}
