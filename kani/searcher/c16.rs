// C16 -- stopping early or failing mid-stream yields a prefix of the full
// results.  The uninterrupted stream F is the grep model's (the real search is
// held equal to it by c03_slice_* / c02_reader_*); the interrupted run P must
// be F[0..=k] followed by exactly one `finish` (stop) or by nothing (error).

fn assert_prefix<S: Shape>(p: &RecSink, f: &RecSink, upto_incl: usize) {
    // events 0..=upto_incl of P equal F's (byte count of finish excluded)
    let cap = evcap::<S>();
    let mut i = 0;
    while i < cap {
        if i <= upto_incl && i < f.n {
            let (r, w) = (&p.ev[i], &f.ev[i]);
            assert!(r.kind == w.kind, "interrupted run: event kind is the full run's");
            if w.kind != K_FINISH {
                assert!(
                    r.off == w.off && r.len == w.len && r.lnum == w.lnum && r.ok,
                    "interrupted run: event is the full run's"
                );
            }
        }
        i += 1;
    }
}

/// `k`: index of the sink call that refuses (stop) or fails (error).
fn check_interrupted<S: Shape>(
    p: &RecSink,
    f: &RecSink,
    res_is_err: bool,
    k: usize,
    fail: bool,
) {
    assert!(!p.overflow && !f.overflow, "event log capacity");
    if k >= f.n {
        // never triggered
        assert!(!res_is_err, "uninterrupted search returns Ok");
        assert!(p.n == f.n, "uninterrupted run delivers the full stream");
        assert_prefix::<S>(p, f, f.n);
    } else if fail {
        assert!(res_is_err, "the sink's error is returned to the caller");
        assert!(p.n == k + 1, "nothing is delivered after a sink error (no finish)");
        assert_prefix::<S>(p, f, k);
    } else if k == f.n - 1 {
        // the refusing call is `finish` itself, which cannot refuse
        assert!(!res_is_err, "stopped search returns Ok");
        assert!(p.n == f.n, "full stream");
        assert_prefix::<S>(p, f, f.n);
    } else {
        assert!(!res_is_err, "stopped search returns Ok");
        assert!(
            p.n == k + 2,
            "after a refused event exactly one more call is made"
        );
        assert_prefix::<S>(p, f, k);
        assert!(
            p.ev[k + 1].kind == K_FINISH,
            "completion is signalled exactly once after a requested stop"
        );
    }
}

fn c16_cfg(stop_nm: bool, passthru: bool) -> Cfg {
    let mut cfg = any_cfg(1);
    cfg.stop_nm = stop_nm;
    cfg.passthru = passthru;
    cfg
}

fn arm(sink: &mut RecSink, cap: usize) -> (usize, bool) {
    let k: usize = kani::any();
    kani::assume(k < cap);
    let fail: bool = kani::any();
    sink.ctl = true;
    if fail {
        sink.fail_at = k;
    } else {
        sink.stop_at = k;
    }
    (k, fail)
}

/// slice strategy, slow line path; stop or error at every event index
pub(crate) fn c16_slice<S: Shape>() {
    let cfg = c16_cfg(false, kani::any());
    let hit = any_hits::<S>();
    let matcher = PlainMatcher::new::<S>(hit);
    let searcher = build_searcher::<S>(&cfg, false);
    let (full, _) = model_events::<S>(&hit, &cfg);
    let mut sink = RecSink::new(S::HAY);
    let (k, fail) = arm(&mut sink, evcap::<S>());
    let r = SliceByLine::new(&searcher, &matcher, S::HAY, &mut sink).run();
    check_interrupted::<S>(&sink, &full, r.is_err(), k, fail);
    kani::cover!(k + 2 < full.n && !fail, "reach-end");
    std::mem::forget(searcher);
}

/// incremental reader strategy: stop / sink error at every event index
pub(crate) fn c16_reader<S: Shape>() {
    let cfg = c16_cfg(false, false);
    let hit = any_hits::<S>();
    let matcher = PlainMatcher::new::<S>(hit);
    let searcher = build_searcher::<S>(&cfg, false);
    let (full, _) = model_events::<S>(&hit, &cfg);
    // concrete fragmentation (capacity 1, 1-byte reads: a roll at every byte);
    // symbolic fragmentation does not terminate here (DESIGN.md 7.1)
    let mut lb = LineBufferBuilder::new()
        .capacity(1)
        .line_terminator(term_of::<S>().as_byte())
        .build();
    let mut sink = RecSink::new(S::HAY);
    let (k, fail) = arm(&mut sink, evcap::<S>());
    let r = {
        let fr = FragReader { hay: S::HAY, pos: 0, calls: 0, chunk: [1; MAXREADS], err_at: usize::MAX, err_interrupted: false };
        let rdr = LineBufferReader::new(fr, &mut lb);
        ReadByLine::new(&searcher, &matcher, rdr, &mut sink).run()
    };
    check_interrupted::<S>(&sink, &full, r.is_err(), k, fail);
    kani::cover!(k + 2 < full.n && !fail, "reach-end");
    std::mem::forget(searcher);
    std::mem::forget(lb);
}

/// incremental reader: the source fails (Other or Interrupted) at read j:
/// the error is returned, nothing is delivered afterwards, no finish, and what
/// was delivered is a prefix of the full stream.
pub(crate) fn c16_reader_ioerr<S: Shape>() {
    let cfg = c16_cfg(false, false);
    let hit = any_hits::<S>();
    let matcher = PlainMatcher::new::<S>(hit);
    let searcher = build_searcher::<S>(&cfg, false);
    let (full, _) = model_events::<S>(&hit, &cfg);
    // concrete fragmentation (capacity 1, 1-byte reads: a roll at every byte);
    // symbolic fragmentation does not terminate here (DESIGN.md 7.1)
    let mut lb = LineBufferBuilder::new()
        .capacity(1)
        .line_terminator(term_of::<S>().as_byte())
        .build();
    let mut sink = RecSink::new(S::HAY);
    let mut frag = FragReader { hay: S::HAY, pos: 0, calls: 0, chunk: [1; MAXREADS], err_at: usize::MAX, err_interrupted: false };
    let j: usize = kani::any();
    kani::assume(j < MAXREADS);
    frag.err_at = j;
    frag.err_interrupted = kani::any();
    let r = {
        let rdr = LineBufferReader::new(&mut frag, &mut lb);
        ReadByLine::new(&searcher, &matcher, rdr, &mut sink).run()
    };
    if frag.calls > j {
        // the failing read was issued
        assert!(r.is_err(), "the source's error is returned to the caller");
        assert!(sink.n >= 1 && sink.n < full.n, "strict prefix, no finish");
        assert!(sink.ev[sink.n - 1].kind != K_FINISH, "finish is not signalled after an error");
        assert_prefix::<S>(&sink, &full, sink.n - 1);
    } else {
        assert!(r.is_ok(), "uninterrupted search returns Ok");
        assert!(sink.n == full.n, "full stream");
        assert_prefix::<S>(&sink, &full, full.n);
    }
    kani::cover!(frag.calls > j && sink.n >= 2, "reach-end");
    std::mem::forget(searcher);
    std::mem::forget(lb);
}
