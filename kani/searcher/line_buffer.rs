// Unit lemmas for crates/searcher/src/line_buffer.rs (child module: private
// fields and functions are visible).  Serve C02 (no byte lost, duplicated or
// reordered by fill/roll/grow whatever the read sizes and capacity), C14
// (quit: nothing at or after the first NUL is ever exposed; convert: every NUL
// becomes the terminator; first-NUL offset), C16 (a failing read surfaces).

const SRC_N: usize = 4;

/// io::Read over a fully SYMBOLIC source of <= 4 bytes that returns a symbolic
/// number of bytes (1..=2) per call and may fail at a symbolic call index.
struct SymReader {
    src: [u8; SRC_N],
    len: usize,
    pos: usize,
    calls: usize,
    chunk: [u8; 8],
    err_at: usize,
}

impl SymReader {
    fn any() -> SymReader {
        let src: [u8; SRC_N] = kani::any();
        let len: usize = kani::any();
        kani::assume(len <= SRC_N);
        let chunk: [u8; 8] = kani::any();
        let mut i = 0;
        while i < 8 {
            kani::assume(chunk[i] >= 1 && chunk[i] <= 2);
            i += 1;
        }
        SymReader { src, len, pos: 0, calls: 0, chunk, err_at: usize::MAX }
    }
}

impl io::Read for SymReader {
    fn read(&mut self, buf: &mut [u8]) -> io::Result<usize> {
        let call = self.calls;
        self.calls += 1;
        if call == self.err_at {
            return Err(io::Error::from(io::ErrorKind::Other));
        }
        let want = if call < 8 { self.chunk[call] as usize } else { 2 };
        let left = self.len - self.pos;
        let mut n = want;
        if n > left {
            n = left;
        }
        if n > buf.len() {
            n = buf.len();
        }
        let mut k = 0;
        while k < n {
            buf[k] = self.src[self.pos + k];
            k += 1;
        }
        self.pos += n;
        Ok(n)
    }
}

/// the initial capacity is concrete per harness instance (a symbolic
/// allocation size makes every buffer access a symbolic-object access)
fn any_lb(binary: BinaryDetection, cap: usize) -> LineBuffer {
    LineBufferBuilder::new()
        .capacity(cap)
        .line_terminator(b'\n')
        .binary_detection(binary)
        .build()
}

/// Drive the buffer the way ReadByLine does -- fill, look at buffer(), consume
/// a symbolic amount that ends on a line boundary (or everything at EOF), fill
/// again -- for up to `rounds` rounds, and reconstruct the stream the consumer
/// saw.  Returns (stream seen, its length, reached EOF, error seen).
fn drive(lb: &mut LineBuffer, rdr: &mut SymReader, rounds: usize, out: &mut [u8; 2 * SRC_N]) -> (usize, bool, bool) {
    let mut n = 0usize;
    let mut eof = false;
    let mut r = 0;
    while r < rounds && !eof {
        match lb.fill(&mut *rdr) {
            Err(e) => {
                std::mem::forget(e);
                return (n, false, true);
            }
            Ok(more) => {
                // representation invariant
                assert!(lb.pos <= lb.last_lineterm && lb.last_lineterm <= lb.end && lb.end <= lb.buf.len(), "line buffer invariant");
                let avail = lb.buffer().len();
                if !more {
                    assert!(avail == 0, "fill reports EOF only when nothing is left to consume");
                    eof = true;
                } else {
                    assert!(avail > 0, "fill reporting data exposes at least one byte");
                    // copy what the consumer sees, then consume all of it
                    let mut k = 0;
                    while k < avail {
                        if n < 2 * SRC_N {
                            out[n] = lb.buffer()[k];
                        }
                        n += 1;
                        k += 1;
                    }
                    let before = lb.absolute_byte_offset();
                    lb.consume(avail);
                    assert!(lb.absolute_byte_offset() == before + avail as u64, "absolute offset advances by what was consumed");
                }
            }
        }
        r += 1;
    }
    (n, eof, false)
}

/// No binary detection: the concatenation of everything buffer() exposed is
/// exactly the source, for every source, read fragmentation and capacity; the
/// buffer only ever exposes whole lines until the reader is exhausted; the
/// final absolute offset is the source length.
#[kani::proof]
#[kani::unwind(9)]
fn c02_linebuffer_stream_cap1() {
    c02_linebuffer_stream_body(1)
}

#[kani::proof]
#[kani::unwind(9)]
fn c02_linebuffer_stream_cap3() {
    c02_linebuffer_stream_body(3)
}

fn c02_linebuffer_stream_body(cap: usize) {
    let mut rdr = SymReader::any();
    let mut lb = any_lb(BinaryDetection::None, cap);
    let mut out = [0u8; 2 * SRC_N];
    let (n, eof, err) = drive(&mut lb, &mut rdr, 6, &mut out);
    assert!(!err, "no error without a failing reader");
    assert!(eof, "EOF is reached within len+2 fills");
    assert!(n == rdr.len, "every source byte is exposed exactly once");
    let mut i = 0;
    while i < SRC_N {
        if i < rdr.len {
            assert!(out[i] == rdr.src[i], "bytes are exposed in source order, unmodified");
        }
        i += 1;
    }
    assert!(lb.absolute_byte_offset() == rdr.len as u64, "final absolute offset is the source length");
    assert!(lb.binary_byte_offset().is_none(), "no binary offset without detection");
    kani::cover!(rdr.len == SRC_N && rdr.calls >= 3, "reach-end");
    std::mem::forget(lb);
}

/// Every fill() that reports data exposes a buffer that ends in the terminator
/// unless the reader is exhausted (whole lines only).
#[kani::proof]
#[kani::unwind(9)]
fn c02_linebuffer_whole_lines_cap1() {
    c02_linebuffer_whole_lines_body(1)
}

#[kani::proof]
#[kani::unwind(9)]
fn c02_linebuffer_whole_lines_cap3() {
    c02_linebuffer_whole_lines_body(3)
}

fn c02_linebuffer_whole_lines_body(cap: usize) {
    let mut rdr = SymReader::any();
    let mut lb = any_lb(BinaryDetection::None, cap);
    let rounds: usize = kani::any();
    kani::assume(rounds <= 3);
    let mut r = 0;
    while r < rounds {
        match lb.fill(&mut rdr) {
            Err(e) => {
                std::mem::forget(e);
                assert!(false, "no error without a failing reader");
            }
            Ok(true) => {
                let b = lb.buffer();
                assert!(!b.is_empty());
                assert!(b[b.len() - 1] == b'\n' || rdr.pos == rdr.len, "a partial line is exposed only at end of input");
                let amt = b.len();
                lb.consume(amt);
            }
            Ok(false) => {}
        }
        r += 1;
    }
    kani::cover!(rounds == 3 && rdr.pos >= 3, "reach-end");
    std::mem::forget(lb);
}

/// Quit detection: nothing at or after the first NUL of the source is ever
/// exposed, what is exposed is the source prefix before it, and the recorded
/// binary offset is exactly the first NUL's offset (none if there is no NUL).
#[kani::proof]
#[kani::unwind(9)]
fn c14_linebuffer_quit_cap1() {
    c14_linebuffer_quit_body(1)
}

#[kani::proof]
#[kani::unwind(9)]
fn c14_linebuffer_quit_cap3() {
    c14_linebuffer_quit_body(3)
}

fn c14_linebuffer_quit_body(cap: usize) {
    let mut rdr = SymReader::any();
    let mut lb = any_lb(BinaryDetection::Quit(0), cap);
    let mut out = [0u8; 2 * SRC_N];
    let (n, eof, err) = drive(&mut lb, &mut rdr, 6, &mut out);
    assert!(!err && eof);
    let mut first = usize::MAX;
    let mut i = 0;
    while i < SRC_N {
        if i < rdr.len && rdr.src[i] == 0 && first == usize::MAX {
            first = i;
        }
        i += 1;
    }
    if first == usize::MAX {
        assert!(n == rdr.len, "without a NUL the whole source is exposed");
        assert!(lb.binary_byte_offset().is_none(), "no NUL, no binary offset");
    } else {
        assert!(n == first, "exactly the bytes before the first NUL are exposed");
        assert!(lb.binary_byte_offset() == Some(first as u64), "binary offset is the first NUL's offset");
    }
    let mut i = 0;
    while i < SRC_N {
        if i < n {
            assert!(out[i] == rdr.src[i] && out[i] != 0, "no NUL byte is ever exposed in quit mode");
        }
        i += 1;
    }
    kani::cover!(first != usize::MAX && first >= 2 && rdr.calls >= 3, "reach-end");
    std::mem::forget(lb);
}

/// Convert detection: the exposed stream is the source with every NUL replaced
/// by the terminator, and the recorded offset is the first NUL's.
#[kani::proof]
#[kani::unwind(9)]
fn c14_linebuffer_convert_cap1() {
    c14_linebuffer_convert_body(1)
}

#[kani::proof]
#[kani::unwind(9)]
fn c14_linebuffer_convert_cap3() {
    c14_linebuffer_convert_body(3)
}

fn c14_linebuffer_convert_body(cap: usize) {
    let mut rdr = SymReader::any();
    let mut lb = any_lb(BinaryDetection::Convert(0), cap);
    let mut out = [0u8; 2 * SRC_N];
    let (n, eof, err) = drive(&mut lb, &mut rdr, 6, &mut out);
    assert!(!err && eof);
    assert!(n == rdr.len, "convert mode exposes every byte position");
    let mut first = usize::MAX;
    let mut i = 0;
    while i < SRC_N {
        if i < rdr.len {
            if rdr.src[i] == 0 {
                if first == usize::MAX {
                    first = i;
                }
                assert!(out[i] == b'\n', "every NUL is replaced by the line terminator");
            } else {
                assert!(out[i] == rdr.src[i], "other bytes are unchanged");
            }
        }
        i += 1;
    }
    if first == usize::MAX {
        assert!(lb.binary_byte_offset().is_none());
    } else {
        assert!(lb.binary_byte_offset() == Some(first as u64), "binary offset is the first NUL's offset");
    }
    kani::cover!(first != usize::MAX && rdr.calls >= 3, "reach-end");
    std::mem::forget(lb);
}

/// replace_bytes on fully symbolic bytes: every `src` byte becomes
/// `replacement`, nothing else changes, the result is the first index.
#[kani::proof]
#[kani::unwind(9)]
fn c14_replace_bytes() {
    let mut buf: [u8; SRC_N] = kani::any();
    let orig = buf;
    let len: usize = kani::any();
    kani::assume(len <= SRC_N);
    let src: u8 = kani::any();
    let rep: u8 = kani::any();
    let got = replace_bytes(&mut buf[..len], src, rep);
    let mut first = usize::MAX;
    let mut i = 0;
    while i < SRC_N {
        if i < len {
            if orig[i] == src {
                if first == usize::MAX {
                    first = i;
                }
                assert!(buf[i] == rep, "every occurrence is replaced");
            } else {
                assert!(buf[i] == orig[i], "other bytes are unchanged");
            }
        } else {
            assert!(buf[i] == orig[i], "bytes outside the slice are untouched");
        }
        i += 1;
    }
    if src == rep {
        assert!(got.is_none(), "identity replacement reports nothing");
    } else if first == usize::MAX {
        assert!(got.is_none());
    } else {
        assert!(got == Some(first), "the offset of the first replacement is returned");
    }
    kani::cover!(first != usize::MAX && first + 2 < len, "reach-end");
}

/// A failing read is returned to the caller by fill(); what had been exposed
/// before is a prefix of the source.
#[kani::proof]
#[kani::unwind(9)]
fn c16_linebuffer_read_error() {
    let mut rdr = SymReader::any();
    let j: usize = kani::any();
    kani::assume(j < 6);
    rdr.err_at = j;
    let mut lb = any_lb(BinaryDetection::None, 2);
    let mut out = [0u8; 2 * SRC_N];
    let (n, eof, err) = drive(&mut lb, &mut rdr, 6, &mut out);
    if rdr.calls > j {
        assert!(err && !eof, "the reader's error surfaces from fill");
    } else {
        assert!(!err && eof);
    }
    assert!(n <= rdr.len);
    let mut i = 0;
    while i < SRC_N {
        if i < n {
            assert!(out[i] == rdr.src[i], "what was exposed before the error is a source prefix");
        }
        i += 1;
    }
    kani::cover!(err && n >= 2, "reach-end");
    std::mem::forget(lb);
}

// ---------------------------------------------------------------------------
// One inductive step of LineBuffer::fill from an ARBITRARY valid state (the
// multi-round drivers above do not terminate under symbolic fragmentation:
// > 15 min at 4 source bytes).  State: a 4-byte buffer with symbolic contents
// and symbolic pos <= last_lineterm <= end satisfying the representation
// invariant; reader: symbolic source of <= 3 bytes, symbolic read sizes.
// With `consume` (pos += amt, offset += amt: checked inside), the stream
// property of C02 / the exposure properties of C14 follow by induction over
// fill/consume rounds -- that induction is argued, not mechanised.

const B0: usize = 3; // initial buffer length
const R_N: usize = 2; // bytes the reader can still deliver

struct StepReader {
    src: [u8; R_N],
    len: usize,
    pos: usize,
    calls: usize,
    chunk: [u8; 4],
}

impl io::Read for StepReader {
    fn read(&mut self, buf: &mut [u8]) -> io::Result<usize> {
        let call = self.calls;
        self.calls += 1;
        let want = if call < 4 { self.chunk[call] as usize } else { 2 };
        let left = self.len - self.pos;
        let mut n = want;
        if n > left {
            n = left;
        }
        if n > buf.len() {
            n = buf.len();
        }
        let mut k = 0;
        while k < n {
            buf[k] = self.src[self.pos + k];
            k += 1;
        }
        self.pos += n;
        Ok(n)
    }
}

fn any_state(binary: BinaryDetection) -> (LineBuffer, StepReader, [u8; B0]) {
    let content: [u8; B0] = kani::any();
    let pos: usize = kani::any();
    let llt: usize = kani::any();
    let end: usize = kani::any();
    kani::assume(pos <= llt && llt <= end && end <= B0);
    // representation invariant: the exposed part ends in the terminator (or is
    // empty), the tail after it holds no terminator
    kani::assume(llt == pos || content[llt - 1] == b'\n');
    let mut i = 0;
    while i < B0 {
        kani::assume(!(i >= llt && i < end) || content[i] != b'\n');
        i += 1;
    }
    let mut buf = vec![0u8; B0];
    let mut i = 0;
    while i < B0 {
        buf[i] = content[i];
        i += 1;
    }
    let off: u64 = kani::any();
    kani::assume(off <= 1000);
    let lb = LineBuffer {
        config: Config { capacity: B0, lineterm: b'\n', buffer_alloc: BufferAllocation::Eager, binary },
        buf,
        pos,
        last_lineterm: llt,
        end,
        absolute_byte_offset: off,
        binary_byte_offset: None,
    };
    let src: [u8; R_N] = kani::any();
    let len: usize = kani::any();
    kani::assume(len <= R_N);
    let chunk: [u8; 4] = kani::any();
    let mut i = 0;
    while i < 4 {
        kani::assume(chunk[i] >= 1 && chunk[i] <= 2);
        i += 1;
    }
    (lb, StepReader { src, len, pos: 0, calls: 0, chunk }, content)
}

/// pending(before) ++ bytes read == pending(after); exposed part is the
/// longest terminator-ended prefix (everything at EOF); offset untouched.
fn check_step(binary: BinaryDetection) {
    let (mut lb, mut rdr, content) = any_state(binary);
    let (pos0, end0, off0) = (lb.pos, lb.end, lb.absolute_byte_offset);
    if let BinaryDetection::Quit(b) | BinaryDetection::Convert(b) = binary {
        // invariant of the detecting modes: nothing pending is a binary byte
        let mut i = 0;
        while i < B0 {
            kani::assume(!(i >= pos0 && i < end0) || content[i] != b);
            i += 1;
        }
    }
    let r = lb.fill(&mut rdr);
    let more = match r {
        Ok(m) => m,
        Err(e) => {
            std::mem::forget(e);
            assert!(false, "fill does not fail without a failing reader");
            return;
        }
    };
    assert!(lb.pos == 0, "fill rolls the pending bytes to the front");
    assert!(lb.last_lineterm <= lb.end && lb.end <= lb.buf.len(), "line buffer invariant");
    assert!(lb.absolute_byte_offset == off0, "fill does not move the absolute offset");
    let pend0 = end0 - pos0;
    // first binary byte among the bytes the reader delivered
    let mut first_bin = usize::MAX;
    if let BinaryDetection::Quit(b) | BinaryDetection::Convert(b) = binary {
        let mut i = 0;
        while i < R_N {
            if i < rdr.pos && rdr.src[i] == b && first_bin == usize::MAX {
                first_bin = i;
            }
            i += 1;
        }
    }
    let quit_hit = matches!(binary, BinaryDetection::Quit(_)) && first_bin != usize::MAX;
    let kept_new = if quit_hit { first_bin } else { rdr.pos };
    assert!(lb.end == pend0 + kept_new, "pending bytes = old pending ++ bytes read (cut at the binary byte in quit mode)");
    let mut i = 0;
    while i < B0 {
        if i < pend0 {
            assert!(lb.buf[i] == content[pos0 + i], "old pending bytes are preserved in order");
        }
        i += 1;
    }
    let mut i = 0;
    while i < R_N {
        if i < kept_new {
            let want = match binary {
                BinaryDetection::Convert(b) if rdr.src[i] == b => b'\n',
                _ => rdr.src[i],
            };
            assert!(lb.buf[pend0 + i] == want, "new bytes are appended in order (binary byte converted to the terminator in convert mode)");
        }
        i += 1;
    }
    match binary {
        BinaryDetection::None => assert!(lb.binary_byte_offset.is_none()),
        _ => {
            if first_bin == usize::MAX {
                assert!(lb.binary_byte_offset.is_none(), "no binary byte, no binary offset");
            } else {
                assert!(
                    lb.binary_byte_offset == Some(off0 + (pend0 + first_bin) as u64),
                    "binary offset is the absolute offset of the first binary byte"
                );
            }
        }
    }
    // what is exposed
    let exposed = lb.last_lineterm;
    let mut i = 0;
    while i < B0 + R_N {
        if i < exposed {
            if let BinaryDetection::Quit(b) | BinaryDetection::Convert(b) = binary {
                assert!(lb.buf[i] != b, "no binary byte is ever exposed");
            }
        }
        i += 1;
    }
    let at_eof = rdr.pos == rdr.len && !quit_hit;
    if exposed < lb.end {
        assert!(exposed == 0 || lb.buf[exposed - 1] == b'\n', "exposed part ends in the terminator");
        let mut i = 0;
        while i < B0 + R_N {
            if i >= exposed && i < lb.end {
                assert!(lb.buf[i] != b'\n', "the unexposed tail holds no complete line");
            }
            i += 1;
        }
        assert!(!quit_hit, "in quit mode everything before the binary byte is exposed");
    } else {
        assert!(at_eof || quit_hit || (exposed > 0 && lb.buf[exposed - 1] == b'\n'), "a partial line is exposed only at end of input");
    }
    assert!(more == (exposed > 0), "fill reports data iff something is exposed");
    // consume: advances pos and the absolute offset together
    let amt: usize = kani::any();
    kani::assume(amt <= exposed);
    lb.consume(amt);
    assert!(lb.pos == amt && lb.absolute_byte_offset == off0 + amt as u64, "consume advances position and absolute offset together");
    kani::cover!(rdr.pos >= 2 && pend0 >= 1 && exposed >= 2, "reach-end");
    std::mem::forget(lb);
}

#[kani::proof]
#[kani::unwind(9)]
fn c02_linebuffer_step() {
    check_step(BinaryDetection::None)
}

#[kani::proof]
#[kani::unwind(9)]
fn c14_linebuffer_step_quit() {
    check_step(BinaryDetection::Quit(0))
}

#[kani::proof]
#[kani::unwind(9)]
fn c14_linebuffer_step_convert() {
    check_step(BinaryDetection::Convert(0))
}
