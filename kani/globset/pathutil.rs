// C12 (G-PIECES) / C04 -- the pieces of a path the glob-set strategies look at.
// Child module of globset::pathutil.  Fully symbolic paths of <= 6 bytes.

const N: usize = 6;

/// file_name(path) is the part after the last `/` -- for every path whose last
/// component is not `.` or `..` (documented in the source: "If the path
/// terminates in ., .., or consists solely of a root of prefix, file_name will
/// return None").  In particular a name that merely ENDS in a dot ("foo.",
/// "a/b.") has a file name.
#[kani::proof]
#[kani::unwind(8)]
fn c12_file_name() {
    let buf: [u8; N] = kani::any();
    let len: usize = kani::any();
    kani::assume(len <= N);
    let bytes = &buf[..len];
    let path: Cow<'_, [u8]> = Cow::Borrowed(bytes);
    let got = file_name(&path);
    // spec: start of last component
    let mut start = 0;
    let mut i = 0;
    while i < len {
        if bytes[i] == b'/' {
            start = i + 1;
        }
        i += 1;
    }
    let comp_len = len - start;
    let is_dot = comp_len == 1 && bytes[start] == b'.';
    let is_dotdot = comp_len == 2 && bytes[start] == b'.' && bytes[start + 1] == b'.';
    if len == 0 || is_dot || is_dotdot {
        assert!(got.is_none(), "no file name for an empty path or a last component of . or ..");
    } else {
        match got {
            None => {
                if bytes[len - 1] == b'.' {
                    assert!(false, "a last component that merely ends in a dot has a file name");
                } else {
                    assert!(false, "file_name is the last path component");
                }
            }
            Some(name) => {
                assert!(name.len() == comp_len, "file_name is the last path component");
                assert!(name.as_ptr() == bytes[start..].as_ptr(), "file_name is the last path component");
            }
        }
    }
    kani::cover!(start > 0 && comp_len >= 2, "reach-end");
}

/// file_name_ext(name) is the suffix of `name` starting at its last `.`.
#[kani::proof]
#[kani::unwind(8)]
fn c12_file_name_ext() {
    let buf: [u8; N] = kani::any();
    let len: usize = kani::any();
    kani::assume(len <= N);
    let bytes = &buf[..len];
    let name: Cow<'_, [u8]> = Cow::Borrowed(bytes);
    let got = file_name_ext(&name);
    let mut dot = usize::MAX;
    let mut i = 0;
    while i < len {
        if bytes[i] == b'.' {
            dot = i;
        }
        i += 1;
    }
    match got {
        None => assert!(dot == usize::MAX, "a name containing a dot has an extension"),
        Some(ext) => {
            assert!(dot != usize::MAX, "no dot, no extension");
            assert!(ext.len() == len - dot, "extension starts at the last dot");
            assert!(ext.as_ptr() == bytes[dot..].as_ptr(), "extension starts at the last dot");
        }
    }
    kani::cover!(dot != usize::MAX && dot > 0 && dot + 1 < len, "reach-end");
}
