// placeholder (no harness yet)
