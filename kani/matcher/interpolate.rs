// C19 -- replacement template expansion equals the regex library's.
// Child module of grep_matcher::interpolate (private find_cap_ref visible).

/// In-harness transcription of the regex library's documented reference
/// grammar (regex-automata 0.4.7 util::interpolate, the version Cargo.lock
/// pins): `$name` = longest run of [0-9A-Za-z_]; `${...}` = anything up to the
/// next `}` that is valid UTF-8; a name that parses as an integer is a group
/// number.  Returns (name start, name end, end of the whole reference).
fn ref_letter(b: u8) -> bool {
    (b >= b'0' && b <= b'9') || (b >= b'a' && b <= b'z') || (b >= b'A' && b <= b'Z') || b == b'_'
}

fn ref_cap_ref(rep: &[u8]) -> Option<(usize, usize, usize)> {
    if rep.len() <= 1 || rep[0] != b'$' {
        return None;
    }
    if rep[1] == b'{' {
        let start = 2;
        let mut i = start;
        while i < rep.len() && rep[i] != b'}' {
            i += 1;
        }
        if i >= rep.len() {
            return None;
        }
        if std::str::from_utf8(&rep[start..i]).is_err() {
            return None;
        }
        return Some((start, i, i + 1));
    }
    let start = 1;
    let mut e = start;
    while e < rep.len() && ref_letter(rep[e]) {
        e += 1;
    }
    if e == start {
        return None;
    }
    Some((start, e, e))
}

const N: usize = 5;

/// find_cap_ref on a fully symbolic buffer (<= 5 bytes) agrees with the
/// library's grammar: same accept/reject, same name bytes, same end, and
/// "number" exactly when the name parses as an integer.  Three harnesses
/// partition the input space: unbraced references; braced references whose
/// name bytes are all in [0-9A-Za-z_] or `}`; all other braced references
/// (where the known finding lives).
#[kani::proof]
#[kani::unwind(8)]
fn c19_find_cap_ref_unbraced() {
    c19_find_cap_ref_body(0)
}

#[kani::proof]
#[kani::unwind(8)]
fn c19_find_cap_ref_braced_plain() {
    c19_find_cap_ref_body(1)
}

#[kani::proof]
#[kani::unwind(8)]
fn c19_find_cap_ref_braced_any() {
    c19_find_cap_ref_body(2)
}

fn c19_find_cap_ref_body(mode: u8) {
    let buf: [u8; N] = kani::any();
    let len: usize = kani::any();
    kani::assume(len <= N);
    let braced = len > 1 && buf[0] == b'$' && buf[1] == b'{';
    match mode {
        0 => kani::assume(!braced),
        1 => {
            // non-empty name (an empty `${}` belongs to the third class)
            kani::assume(braced && len > 2 && buf[2] != b'}');
            let mut i = 2;
            while i < N {
                kani::assume(i >= len || buf[i] == b'}' || ref_letter(buf[i]));
                i += 1;
            }
        }
        _ => kani::assume(braced),
    }
    let rep = &buf[..len];
    let got = find_cap_ref(rep);
    let want = ref_cap_ref(rep);
    match (got, want) {
        (None, None) => {}
        (Some(g), Some((s, e, end))) => {
            assert!(g.end == end, "capture reference ends where the library's does");
            let name = &rep[s..e];
            match g.cap {
                Ref::Named(n) => {
                    assert!(n.as_bytes().len() == name.len(), "capture name is the library's");
                    assert!(n.as_bytes().as_ptr() == name.as_ptr(), "capture name is the library's");
                    // the library would have called it a number iff it parses
                    let s = std::str::from_utf8(name).unwrap();
                    assert!(s.parse::<usize>().is_err(), "a name that parses as an integer is a group number");
                }
                Ref::Number(k) => {
                    let s = std::str::from_utf8(name).unwrap();
                    assert!(s.parse::<usize>() == Ok(k), "group number is the library's");
                }
            }
        }
        (None, Some((s, e, _end))) => {
            // Role split for the known finding: a BRACED name that is empty or
            // has a byte outside [0-9A-Za-z_] (the regex library accepts
            // anything up to `}`; ripgrep's own tests interp11..13 pin the
            // literal copy).  Every other disagreement is a different defect.
            let mut odd = e == s;
            let mut i = s;
            while i < e {
                if !ref_letter(rep[i]) {
                    odd = true;
                }
                i += 1;
            }
            if rep[1] == b'{' && odd {
                assert!(false, "braced reference with an empty name or characters outside [0-9A-Za-z_]: the library expands it, ripgrep copies it literally");
            } else {
                assert!(false, "the library recognises a capture reference here, ripgrep copies it literally");
            }
        }
        (Some(_), None) => {
            assert!(false, "ripgrep recognises a capture reference the library does not");
        }
    }
    kani::cover!(want.is_some() && len == N, "reach-end");
}

// Differential against the regex library itself (needs regex-automata as a
// dependency of grep-matcher: added to the scratch Cargo.toml only).
mod diff {
    use super::*;

    const ALPHA: [u8; 8] = [b'$', b'{', b'}', b'1', b'a', b'-', 0xFF, b'2'];
    const TN: usize = 3;

    fn append(i: usize, dst: &mut Vec<u8>) {
        // groups 0..=2 exist; group 2 did not participate
        match i {
            0 => dst.push(b'A'),
            1 => dst.push(b'B'),
            _ => {}
        }
    }
    fn name_to_index(n: &str) -> Option<usize> {
        if n == "a" {
            Some(1)
        } else {
            None
        }
    }

    /// interpolate() == regex_automata::util::interpolate::bytes() on every
    /// template of <= 3 symbols over the class alphabet.
    #[kani::proof]
    #[kani::unwind(12)]
    fn c19_interpolate_diff() {
        let idx: [u8; TN] = kani::any();
        let len: usize = kani::any();
        kani::assume(len <= TN);
        let mut t = [0u8; TN];
        let mut k = 0;
        while k < TN {
            kani::assume(idx[k] < 8);
            t[k] = ALPHA[idx[k] as usize];
            k += 1;
        }
        let tpl = &t[..len];
        let mut mine: Vec<u8> = Vec::with_capacity(16);
        let mut theirs: Vec<u8> = Vec::with_capacity(16);
        interpolate(tpl, append, name_to_index, &mut mine);
        regex_automata::util::interpolate::bytes(tpl, append, name_to_index, &mut theirs);
        assert!(mine.len() == theirs.len(), "expansion has the library's length");
        let mut i = 0;
        while i < 8 {
            if i < mine.len() && i < theirs.len() {
                assert!(mine[i] == theirs[i], "expansion equals the regex library's");
            }
            i += 1;
        }
        kani::cover!(len == TN && mine.len() >= 1, "reach-end");
        std::mem::forget(mine);
        std::mem::forget(theirs);
    }
}
