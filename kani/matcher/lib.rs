// C19 / C10 -- the Matcher trait's default iteration methods (find_iter,
// captures_iter, replace_with_captures: what Replacer::replace_all and the
// printers' match counting are built on) enumerate exactly the successive
// leftmost non-overlapping matches, with the regex library's rule for empty
// matches: an empty match immediately following a match is skipped, and the
// search then resumes one byte further.
//
// SpanMatcher: symbolic table E[s] = end of the match starting at s (or NONE)
// over a haystack of n <= 4 bytes; find_at(at) answers with the first s >= at.

const HN: usize = 4;
const NONE: usize = usize::MAX;
const MAXM: usize = HN + 2;

#[derive(Debug)]
struct FatErr([u64; 4]);
impl std::fmt::Display for FatErr {
    fn fmt(&self, _f: &mut std::fmt::Formatter<'_>) -> std::fmt::Result {
        Ok(())
    }
}

struct OneCap(Option<Match>);
impl Captures for OneCap {
    fn len(&self) -> usize {
        1
    }
    fn get(&self, i: usize) -> Option<Match> {
        if i == 0 {
            self.0
        } else {
            None
        }
    }
}

struct SpanMatcher {
    n: usize,
    e: [usize; HN + 1],
}

impl SpanMatcher {
    fn any() -> SpanMatcher {
        let n: usize = kani::any();
        kani::assume(n <= HN);
        let mut e = [NONE; HN + 1];
        let mut s = 0;
        while s <= HN {
            if s <= n {
                let has: bool = kani::any();
                if has {
                    let end: usize = kani::any();
                    kani::assume(end >= s && end <= n);
                    e[s] = end;
                }
            }
            s += 1;
        }
        SpanMatcher { n, e }
    }

    fn first_from(&self, at: usize) -> Option<Match> {
        let mut s = 0;
        let mut found: Option<Match> = None;
        while s <= HN {
            if s <= self.n && s >= at && found.is_none() && self.e[s] != NONE {
                found = Some(Match::new(s, self.e[s]));
            }
            s += 1;
        }
        found
    }
}

impl Matcher for SpanMatcher {
    type Captures = OneCap;
    type Error = FatErr;
    fn find_at(&self, _h: &[u8], at: usize) -> Result<Option<Match>, FatErr> {
        Ok(self.first_from(at))
    }
    fn new_captures(&self) -> Result<OneCap, FatErr> {
        Ok(OneCap(None))
    }
    fn captures_at(&self, _h: &[u8], at: usize, caps: &mut OneCap) -> Result<bool, FatErr> {
        caps.0 = self.first_from(at);
        Ok(caps.0.is_some())
    }
}

/// reference: the regex library's iteration (regex-automata util::iter::Searcher)
fn reference(m: &SpanMatcher) -> ([(usize, usize); MAXM], usize) {
    let mut out = [(0usize, 0usize); MAXM];
    let mut k = 0usize;
    let mut last_end = 0usize;
    let mut last_match_end: usize = NONE;
    let mut guard = 0;
    while guard < 2 * HN + 4 {
        guard += 1;
        if last_end > m.n {
            break;
        }
        let mut mm = match m.first_from(last_end) {
            None => break,
            Some(x) => x,
        };
        if mm.start() == mm.end() && mm.end() == last_match_end {
            // overlapping empty match: search again one byte further
            if last_end + 1 > m.n {
                break;
            }
            mm = match m.first_from(last_end + 1) {
                None => break,
                Some(x) => x,
            };
        }
        last_end = mm.end();
        last_match_end = mm.end();
        if k < MAXM {
            out[k] = (mm.start(), mm.end());
        }
        k += 1;
    }
    (out, k)
}

const HAYS: [u8; HN] = [b'x'; HN];

#[kani::proof]
#[kani::unwind(14)]
fn c19_find_iter() {
    let m = SpanMatcher::any();
    let hay = &HAYS[..m.n];
    let mut got = [(0usize, 0usize); MAXM];
    let mut k = 0usize;
    let r = m.find_iter(hay, |x| {
        if k < MAXM {
            got[k] = (x.start(), x.end());
        }
        k += 1;
        true
    });
    assert!(r.is_ok());
    let (want, wk) = reference(&m);
    assert!(k == wk, "find_iter yields as many matches as the regex library's iteration");
    let mut i = 0;
    while i < MAXM {
        if i < wk {
            assert!(got[i].0 == want[i].0 && got[i].1 == want[i].1, "find_iter yields the regex library's successive matches");
        }
        i += 1;
    }
    kani::cover!(wk >= 3, "reach-end");
}

#[kani::proof]
#[kani::unwind(14)]
fn c19_captures_iter() {
    let m = SpanMatcher::any();
    let hay = &HAYS[..m.n];
    let mut got = [(0usize, 0usize); MAXM];
    let mut k = 0usize;
    let mut caps = OneCap(None);
    let r = m.captures_iter(hay, &mut caps, |c| {
        let x = c.get(0).unwrap();
        if k < MAXM {
            got[k] = (x.start(), x.end());
        }
        k += 1;
        true
    });
    assert!(r.is_ok());
    let (want, wk) = reference(&m);
    assert!(k == wk, "captures_iter yields as many matches as the regex library's iteration");
    let mut i = 0;
    while i < MAXM {
        if i < wk {
            assert!(got[i].0 == want[i].0 && got[i].1 == want[i].1, "captures_iter yields the regex library's successive matches");
        }
        i += 1;
    }
    kani::cover!(wk >= 3, "reach-end");
}
