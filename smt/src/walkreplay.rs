//! Native replay for Engine M (C06): build a tiny real tree, configure the real
//! WalkBuilder from a witness assignment and report whether the entry of
//! interest is yielded by the serial and by the parallel walker.

use std::sync::{Arc, Mutex};

pub fn run(args: &[String]) -> i32 {
    let get = |k: &str, d: &str| -> String {
        args.iter().position(|a| a == k).and_then(|i| args.get(i + 1).cloned()).unwrap_or(d.to_string())
    };
    let is_dir = get("--is-dir", "0") == "1";
    let size = get("--size-limit", "none"); // none | under | over
    let filter = get("--filter", "none"); // none | accept | reject
    let ignored = get("--ignored", "0") == "1";
    let follow = get("--follow", "0") == "1";
    let symlink = get("--symlink", "0") == "1";
    let ign_link = get("--ignored-link", "0") == "1";
    let ign_res = get("--ignored-resolved", "0") == "1";
    let root = std::env::temp_dir().join(format!("rgsmt-walk-{}", std::process::id()));
    let _ = std::fs::remove_dir_all(&root);
    std::fs::create_dir_all(root.join("d")).unwrap();
    std::fs::write(root.join("f.txt"), b"12345").unwrap();
    std::fs::write(root.join("d").join("g.txt"), b"1").unwrap();
    let target = if symlink { "lnk" } else if is_dir { "d" } else { "f.txt" };
    if symlink {
        // the entry of interest is a symbolic link (to the directory d or to the file f.txt)
        #[cfg(unix)]
        std::os::unix::fs::symlink(root.join(if is_dir { "d" } else { "f.txt" }), root.join("lnk")).unwrap();
        // ignore rules that tell the link itself (not a directory) from what it
        // resolves to (a directory): `lnk/` matches only a directory
        let rules = match (ign_link, ign_res) {
            (true, true) => "lnk\n",
            (false, true) => "lnk/\n",
            (true, false) => "lnk\n!lnk/\n",
            (false, false) => "",
        };
        if !rules.is_empty() {
            std::fs::write(root.join(".ignore"), rules).unwrap();
        }
    } else if ignored {
        std::fs::write(root.join(".ignore"), format!("{}\n", target)).unwrap();
    }
    let mk = || {
        let mut b = ignore::WalkBuilder::new(&root);
        b.hidden(false).git_ignore(false).git_global(false).git_exclude(false).parents(false).threads(2).follow_links(follow);
        match size.as_str() {
            "under" => {
                b.max_filesize(Some(100));
            }
            "over" => {
                b.max_filesize(Some(3));
            }
            _ => {}
        }
        match filter.as_str() {
            "accept" => {
                b.filter_entry(|_e| true);
            }
            "reject" => {
                let t = target.to_string();
                b.filter_entry(move |e| e.depth() == 0 || e.file_name().to_string_lossy() != t);
            }
            _ => {}
        }
        b
    };
    let mut serial = false;
    for e in mk().build() {
        if let Ok(e) = e {
            if e.depth() == 1 && e.file_name().to_string_lossy() == target {
                serial = true;
            }
        }
    }
    let seen = Arc::new(Mutex::new(false));
    let seen2 = seen.clone();
    let t2 = target.to_string();
    mk().build_parallel().run(|| {
        let seen = seen2.clone();
        let t = t2.clone();
        Box::new(move |e| {
            if let Ok(e) = e {
                if e.depth() == 1 && e.file_name().to_string_lossy() == t {
                    *seen.lock().unwrap() = true;
                }
            }
            ignore::WalkState::Continue
        })
    });
    let parallel = *seen.lock().unwrap();
    let _ = std::fs::remove_dir_all(&root);
    println!("serial={} parallel={}", serial as u8, parallel as u8);
    0
}
