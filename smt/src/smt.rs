//! SMT-LIB2 encoding of bounded NFA runs, and a thin driver around a live
//! `z3 -in` process.  Every query is self-contained text (so it can be re-asked
//! of cvc5 verbatim); z3 is `(reset)` between queries.

use crate::nfa::{look_bit, Nfa, Trans, ALL_LOOKS};
use regex_syntax::hir::Look;
use std::fmt::Write as _;
use std::io::{BufRead, BufReader, Write};
use std::process::{Child, ChildStdin, Command, Stdio};

pub struct Enc {
    pub l: usize,
    pub text: String,
    nsim: usize,
    pub ints: Vec<String>,
}

/// Result of encoding one NFA run over haystack b[lo..hi].
pub struct Sim {
    /// m[i]: a match ends at position i (unflagged / any)
    pub m: Vec<String>,
    /// m1[i]: a match ends at i having consumed >=1 marked byte
    pub m1: Vec<String>,
}

impl Enc {
    pub fn new(l: usize) -> Enc {
        let mut text = String::new();
        text.push_str("(set-logic ALL)\n");
        for i in 0..l {
            let _ = writeln!(text, "(declare-const b{} (_ BitVec 8))", i);
        }
        text.push_str("(declare-const n Int)\n");
        let _ = writeln!(text, "(assert (and (<= 0 n) (<= n {})))", l);
        text.push_str(
            "(define-fun isw ((x (_ BitVec 8))) Bool (or (and (bvule #x30 x) (bvule x #x39)) \
             (and (bvule #x41 x) (bvule x #x5a)) (and (bvule #x61 x) (bvule x #x7a)) (= x #x5f)))\n",
        );
        Enc { l, text, nsim: 0, ints: vec!["n".to_string()] }
    }

    pub fn declare_int(&mut self, name: &str) {
        let _ = writeln!(self.text, "(declare-const {} Int)", name);
        self.ints.push(name.to_string());
    }

    pub fn assert(&mut self, t: &str) {
        let _ = writeln!(self.text, "(assert {})", t);
    }

    /// every byte at a position < n is ASCII
    pub fn assume_ascii(&mut self) {
        for i in 0..self.l {
            let _ = writeln!(self.text, "(assert (bvult b{} #x80))", i);
        }
    }

    /// every byte at a position < n is ASCII or part of a well-formed C3 A9
    /// pair (U+00E9) lying inside b[0..n)
    pub fn assume_ascii_eacute(&mut self) {
        for i in 0..self.l {
            let lead = if i + 1 < self.l {
                format!("(and (= b{} #xc3) (< {} n) (= b{} #xa9))", i, i + 1, i + 1)
            } else {
                "false".to_string()
            };
            let cont = if i >= 1 { format!("(and (= b{} #xa9) (= b{} #xc3))", i, i - 1) } else { "false".to_string() };
            let _ = writeln!(self.text, "(assert (or (<= n {}) (bvult b{} #x80) {} {}))", i, i, lead, cont);
        }
    }

    fn byte(i: usize) -> String {
        format!("b{}", i)
    }

    /// SMT term: look `l` holds at concrete position i of haystack [lo,hi]
    fn look_term(&self, l: Look, lo: &str, hi: &str, i: usize) -> String {
        let hasprev = if i == 0 { "false".to_string() } else { format!("(< {} {})", lo, i) };
        let hasnext = if i >= self.l { "false".to_string() } else { format!("(< {} {})", i, hi) };
        let prev = if i == 0 { "#x00".to_string() } else { Self::byte(i - 1) };
        let next = if i >= self.l { "#x00".to_string() } else { Self::byte(i) };
        let prev_is = |c: u8| format!("(and {} (= {} #x{:02x}))", hasprev, prev, c);
        let next_is = |c: u8| format!("(and {} (= {} #x{:02x}))", hasnext, next, c);
        let wb = format!("(and {} (isw {}))", hasprev, prev);
        let wa = format!("(and {} (isw {}))", hasnext, next);
        // U+00E9 (C3 A9) immediately before / after position i, inside [lo,hi]
        let e_before = if i >= 2 {
            format!("(and (<= {} {}) (= b{} #xc3) (= b{} #xa9))", lo, i - 2, i - 2, i - 1)
        } else {
            "false".to_string()
        };
        let e_after = if i + 1 < self.l {
            format!("(and (< {} {}) (= b{} #xc3) (= b{} #xa9))", i + 1, hi, i, i + 1)
        } else {
            "false".to_string()
        };
        let dec_prev_ok = format!("(or (not {}) (bvult {} #x80) {})", hasprev, prev, e_before);
        let dec_next_ok = format!("(or (not {}) (bvult {} #x80) {})", hasnext, next, e_after);
        let wbu = format!("(or {} {})", wb, e_before);
        let wau = format!("(or {} {})", wa, e_after);
        match l {
            Look::Start => format!("(= {} {})", lo, i),
            Look::End => format!("(= {} {})", hi, i),
            Look::StartLF => format!("(or (= {} {}) {})", lo, i, prev_is(b'\n')),
            Look::EndLF => format!("(or (= {} {}) {})", hi, i, next_is(b'\n')),
            Look::StartCRLF => format!(
                "(or (= {} {}) {} (and {} (not {})))",
                lo,
                i,
                prev_is(b'\n'),
                prev_is(b'\r'),
                next_is(b'\n')
            ),
            Look::EndCRLF => format!(
                "(or (= {} {}) {} (and {} (not {})))",
                hi,
                i,
                next_is(b'\r'),
                next_is(b'\n'),
                prev_is(b'\r')
            ),
            Look::WordAscii => format!("(xor {} {})", wb, wa),
            Look::WordAsciiNegate => format!("(= {} {})", wb, wa),
            Look::WordStartAscii => format!("(and (not {}) {})", wb, wa),
            Look::WordEndAscii => format!("(and {} (not {}))", wb, wa),
            Look::WordStartHalfAscii => format!("(not {})", wb),
            Look::WordEndHalfAscii => format!("(not {})", wa),
            Look::WordUnicode => format!("(xor {} {})", wbu, wau),
            Look::WordUnicodeNegate => format!("(and {} {} (= {} {}))", dec_prev_ok, dec_next_ok, wbu, wau),
            Look::WordStartUnicode => format!("(and (not {}) {})", wbu, wau),
            Look::WordEndUnicode => format!("(and {} (not {}))", wbu, wau),
            Look::WordStartHalfUnicode => format!("(and {} (not {}))", dec_prev_ok, wbu),
            Look::WordEndHalfUnicode => format!("(and {} (not {}))", dec_next_ok, wau),
        }
    }

    fn mask_term(&self, m: u32, lo: &str, hi: &str, i: usize) -> String {
        if m == 0 {
            return "true".to_string();
        }
        let mut parts = vec![];
        for &l in ALL_LOOKS.iter() {
            if m & look_bit(l) != 0 {
                parts.push(self.look_term(l, lo, hi, i));
            }
        }
        if parts.len() == 1 {
            parts.pop().unwrap()
        } else {
            format!("(and {})", parts.join(" "))
        }
    }

    /// Encode all runs of `nfa` over haystack b[lo..hi] (lo, hi: Int terms).
    /// `mark`: optional byte predicate (256-bit set); m1[i] then says "a match
    /// ends at i that consumed at least one marked byte".
    pub fn sim(&mut self, nfa: &Nfa, lo: &str, hi: &str, mark: Option<&[bool; 256]>) -> Sim {
        let id = self.nsim;
        self.nsim += 1;
        let l = self.l;
        let core = nfa.core_states();
        let flags = if mark.is_some() { 2 } else { 1 };
        let name = |i: usize, q: usize, f: usize| format!("A{}_{}_{}_{}", id, i, q, f);
        // incoming[t] = list of (p, byte lo, byte hi, mask) : p -[lo,hi]-> r, (t,mask) in closure[r]
        let mut incoming: Vec<Vec<(usize, u8, u8, u32)>> = vec![vec![]; nfa.states.len()];
        for &p in &core {
            for t in &nfa.states[p] {
                if let Trans::Byte { lo: bl, hi: bh, to } = t {
                    for &(c, m) in &nfa.closure[*to] {
                        incoming[c].push((p, *bl, *bh, m));
                    }
                }
            }
        }
        let mut start_masks: Vec<Vec<u32>> = vec![vec![]; nfa.states.len()];
        for &(c, m) in &nfa.closure[nfa.start] {
            start_masks[c].push(m);
        }
        let mark_term = |i: usize| -> String {
            // byte i is marked
            let set = mark.unwrap();
            let mut ranges = vec![];
            let mut b = 0usize;
            while b < 256 {
                if set[b] {
                    let s = b;
                    while b + 1 < 256 && set[b + 1] {
                        b += 1;
                    }
                    ranges.push((s as u8, b as u8));
                }
                b += 1;
            }
            let parts: Vec<String> = ranges
                .iter()
                .map(|&(s, e)| {
                    if s == e {
                        format!("(= b{} #x{:02x})", i, s)
                    } else {
                        format!("(and (bvule #x{:02x} b{}) (bvule b{} #x{:02x}))", s, i, i, e)
                    }
                })
                .collect();
            match parts.len() {
                0 => "false".to_string(),
                1 => parts[0].clone(),
                _ => format!("(or {})", parts.join(" ")),
            }
        };
        for i in 0..=l {
            let inrange = format!("(and (<= {} {}) (<= {} {}))", lo, i, i, hi);
            let marked_prev = if mark.is_some() && i >= 1 { mark_term(i - 1) } else { "false".into() };
            for &t in &core {
                for f in 0..flags {
                    let mut alts: Vec<String> = vec![];
                    if f == 0 {
                        for &m in &start_masks[t] {
                            let mt = self.mask_term(m, lo, hi, i);
                            alts.push(if mt == "true" { inrange.clone() } else { format!("(and {} {})", inrange, mt) });
                        }
                    }
                    if i >= 1 {
                        // group by (p, mask): OR of byte ranges
                        let mut groups: std::collections::BTreeMap<(usize, u32), Vec<(u8, u8)>> = Default::default();
                        for &(p, bl, bh, m) in &incoming[t] {
                            groups.entry((p, m)).or_default().push((bl, bh));
                        }
                        for ((p, m), ranges) in groups {
                            let rparts: Vec<String> = ranges
                                .iter()
                                .map(|&(bl, bh)| {
                                    if bl == 0 && bh == 255 {
                                        "true".to_string()
                                    } else if bl == bh {
                                        format!("(= b{} #x{:02x})", i - 1, bl)
                                    } else {
                                        format!("(and (bvule #x{:02x} b{}) (bvule b{} #x{:02x}))", bl, i - 1, i - 1, bh)
                                    }
                                })
                                .collect();
                            let rterm = if rparts.iter().any(|r| r == "true") {
                                "true".to_string()
                            } else if rparts.len() == 1 {
                                rparts[0].clone()
                            } else {
                                format!("(or {})", rparts.join(" "))
                            };
                            let mt = self.mask_term(m, lo, hi, i);
                            let within = format!("(< {} {})", i - 1, hi);
                            let src = if flags == 1 {
                                name(i - 1, p, 0)
                            } else if f == 0 {
                                format!("(and {} (not {}))", name(i - 1, p, 0), marked_prev)
                            } else {
                                format!("(or {} (and {} {}))", name(i - 1, p, 1), name(i - 1, p, 0), marked_prev)
                            };
                            alts.push(format!("(and {} {} {} {})", src, within, rterm, mt));
                        }
                    }
                    let body = match alts.len() {
                        0 => "false".to_string(),
                        1 => alts.pop().unwrap(),
                        _ => format!("(or {})", alts.join(" ")),
                    };
                    let _ = writeln!(self.text, "(define-fun {} () Bool {})", name(i, t, f), body);
                }
            }
        }
        let m: Vec<String> = (0..=l)
            .map(|i| {
                if flags == 1 {
                    name(i, nfa.accept, 0)
                } else {
                    format!("(or {} {})", name(i, nfa.accept, 0), name(i, nfa.accept, 1))
                }
            })
            .collect();
        let m1: Vec<String> = (0..=l)
            .map(|i| if flags == 2 { name(i, nfa.accept, 1) } else { "false".to_string() })
            .collect();
        Sim { m, m1 }
    }

    pub fn any(terms: &[String]) -> String {
        format!("(or false {})", terms.join(" "))
    }
}

// ---------------------------------------------------------------------------

#[derive(Debug, Clone, PartialEq)]
pub enum Verdict {
    Unsat,
    Sat { bytes: Vec<u8>, ints: Vec<(String, i64)> },
    Unknown(String),
}

pub struct Z3 {
    child: Child,
    stdin: ChildStdin,
    rx: std::sync::mpsc::Receiver<String>,
    pub queries: usize,
    pub time_ms: u128,
    pub timeout_ms: u64,
    pub restarts: usize,
}

fn spawn_z3() -> (Child, ChildStdin, std::sync::mpsc::Receiver<String>) {
    let mut child = Command::new(std::env::var("RGSMT_Z3").unwrap_or("z3".into()))
        .arg("-in")
        .stdin(Stdio::piped())
        .stdout(Stdio::piped())
        .stderr(Stdio::null())
        .spawn()
        .expect("spawn z3");
    let stdin = child.stdin.take().unwrap();
    let stdout = BufReader::new(child.stdout.take().unwrap());
    let (tx, rx) = std::sync::mpsc::channel();
    std::thread::spawn(move || {
        for line in stdout.lines() {
            match line {
                Ok(l) => {
                    if tx.send(l).is_err() {
                        break;
                    }
                }
                Err(_) => break,
            }
        }
    });
    (child, stdin, rx)
}

impl Z3 {
    pub fn new(timeout_ms: u64) -> Z3 {
        let (child, stdin, rx) = spawn_z3();
        Z3 { child, stdin, rx, queries: 0, time_ms: 0, timeout_ms, restarts: 0 }
    }

    fn restart(&mut self) {
        let _ = self.child.kill();
        let _ = self.child.wait();
        let (child, stdin, rx) = spawn_z3();
        self.child = child;
        self.stdin = stdin;
        self.rx = rx;
        self.restarts += 1;
    }

    /// one line, or None on wall-clock timeout / EOF
    fn read_line(&mut self, wait_ms: u64) -> Option<String> {
        self.rx.recv_timeout(std::time::Duration::from_millis(wait_ms)).ok()
    }

    fn read_sexpr(&mut self, wait_ms: u64) -> Option<String> {
        let mut out = String::new();
        let mut depth: i64 = 0;
        loop {
            let line = self.read_line(wait_ms)?;
            for c in line.chars() {
                if c == '(' {
                    depth += 1;
                }
                if c == ')' {
                    depth -= 1;
                }
            }
            out.push_str(&line);
            out.push('\n');
            if depth <= 0 {
                break;
            }
        }
        Some(out)
    }

    /// Ask one self-contained query (the Enc text plus asserts).  z3's own
    /// soft timeout is backed by a wall-clock watchdog that restarts the
    /// process (parsing / preprocessing are not covered by the soft timeout).
    pub fn check(&mut self, enc: &Enc) -> Verdict {
        let t0 = std::time::Instant::now();
        self.queries += 1;
        let mut q = String::new();
        q.push_str("(reset)\n");
        let _ = writeln!(q, "(set-option :timeout {})", self.timeout_ms);
        q.push_str(&enc.text);
        q.push_str("(check-sat)\n");
        if let Ok(d) = std::env::var("RGSMT_DUMP") {
            let _ = std::fs::write(format!("{}/q{}.smt2", d, self.queries), &q);
        }
        if self.stdin.write_all(q.as_bytes()).is_err() || self.stdin.flush().is_err() {
            self.restart();
            return Verdict::Unknown("z3 pipe closed".into());
        }
        let wall = self.timeout_ms + 15_000;
        let mut ans;
        loop {
            match self.read_line(wall) {
                None => {
                    self.restart();
                    self.time_ms += t0.elapsed().as_millis();
                    return Verdict::Unknown("z3 wall-clock timeout".into());
                }
                Some(l) => {
                    ans = l;
                    if !ans.trim().is_empty() {
                        break;
                    }
                }
            }
        }
        let ans = ans.trim().to_string();
        let v = if ans == "unsat" {
            Verdict::Unsat
        } else if ans == "sat" {
            let mut names: Vec<String> = (0..enc.l).map(|i| format!("b{}", i)).collect();
            names.extend(enc.ints.iter().cloned());
            let req = format!("(get-value ({}))\n", names.join(" "));
            let _ = self.stdin.write_all(req.as_bytes());
            let _ = self.stdin.flush();
            match self.read_sexpr(30_000) {
                Some(resp) => parse_model(&resp, enc),
                None => {
                    self.restart();
                    Verdict::Unknown("z3 model timeout".into())
                }
            }
        } else {
            if ans.contains("error") {
                // drain and restart to resynchronise
                self.restart();
            }
            Verdict::Unknown(ans)
        };
        self.time_ms += t0.elapsed().as_millis();
        v
    }
}

impl Drop for Z3 {
    fn drop(&mut self) {
        let _ = self.stdin.write_all(b"(exit)\n");
        let _ = self.child.kill();
        let _ = self.child.wait();
    }
}

fn parse_model(resp: &str, enc: &Enc) -> Verdict {
    if resp.contains("(error") {
        return Verdict::Unknown(format!("error in model: {}", resp));
    }
    let mut bytes = vec![0u8; enc.l];
    let mut ints = vec![];
    // entries look like (b0 #x61) (n 3) (ls (- 1))
    let toks: Vec<&str> = resp
        .split(|c: char| c == '(' || c == ')' || c.is_whitespace())
        .filter(|t| !t.is_empty())
        .collect();
    let mut i = 0;
    while i < toks.len() {
        let t = toks[i];
        if t.starts_with('b') && t[1..].chars().all(|c| c.is_ascii_digit()) && !t[1..].is_empty() {
            let idx: usize = t[1..].parse().unwrap();
            if i + 1 < toks.len() && toks[i + 1].starts_with("#x") {
                bytes[idx] = u8::from_str_radix(&toks[i + 1][2..], 16).unwrap_or(0);
                i += 2;
                continue;
            }
        } else if enc.ints.iter().any(|n| n == t) {
            let mut neg = false;
            let mut j = i + 1;
            if j < toks.len() && toks[j] == "-" {
                neg = true;
                j += 1;
            }
            if j < toks.len() {
                if let Ok(v) = toks[j].parse::<i64>() {
                    ints.push((t.to_string(), if neg { -v } else { v }));
                    i = j + 1;
                    continue;
                }
            }
        }
        i += 1;
    }
    Verdict::Sat { bytes, ints }
}

/// Re-ask a query of cvc5 (cross-check of the z3 verdict).
pub fn cvc5_check(enc: &Enc, timeout_ms: u64) -> Option<bool> {
    let path = std::env::temp_dir().join(format!("rgsmt-{}-{}.smt2", std::process::id(), enc.text.len()));
    let mut q = enc.text.clone();
    q.push_str("(check-sat)\n");
    std::fs::write(&path, q).ok()?;
    let out = Command::new("cvc5")
        .arg("--lang")
        .arg("smt2")
        .arg(format!("--tlimit={}", timeout_ms))
        .arg(&path)
        .output()
        .ok()?;
    let _ = std::fs::remove_file(&path);
    let s = String::from_utf8_lossy(&out.stdout);
    if s.contains("(error") {
        return None;
    }
    match s.trim().lines().last().unwrap_or("").trim() {
        "sat" => Some(true),
        "unsat" => Some(false),
        _ => None,
    }
}
