//! C11 / C01 obligations for one regex program (patterns + builder options).

use crate::corpus::{Case, ROpts, Term};
use crate::nfa::Nfa;
use crate::smt::{cvc5_check, Enc, Verdict, Z3};
use crate::{Ctx, ObResult};
use grep_matcher::{LineMatchKind, Matcher};
use grep_regex::{RegexMatcher, RegexMatcherBuilder};
use regex_syntax::hir::Hir;

/// automata with more core states than this are restricted to ASCII input
pub const ASCII_ONLY_ABOVE: usize = 120;

pub fn term_bytes(t: Term) -> Vec<u8> {
    match t {
        Term::Lf => vec![b'\n'],
        Term::Crlf => vec![b'\r', b'\n'],
        Term::Nul => vec![0],
    }
}

pub fn builder_for(o: &ROpts) -> RegexMatcherBuilder {
    // mirrors crates/core/flags/hiargs.rs matcher_rust for a non-multiline search
    let mut b = RegexMatcherBuilder::new();
    b.multi_line(true).unicode(o.unicode).octal(false).fixed_strings(o.fixed);
    match o.case {
        Case::Sensitive => b.case_insensitive(false),
        Case::Insensitive => b.case_insensitive(true),
        Case::Smart => b.case_smart(true),
    };
    if o.whole_line {
        b.whole_line(true);
    } else if o.word {
        b.word(true);
    }
    b.line_terminator(Some(b'\n')).dot_matches_new_line(false);
    if o.term == Term::Crlf {
        b.crlf(true);
    }
    if o.term == Term::Nul {
        b.line_terminator(Some(0));
    }
    b
}

pub struct Built {
    pub matcher: RegexMatcher,
    pub final_hir: Hir,
    pub fast_hir: Option<Hir>,
}

pub fn build_real(patterns: &[String], o: &ROpts, ban: Option<u8>) -> Result<Built, String> {
    let _ = grep_regex::verif_hooks::verif_take_last_build();
    let mut b = builder_for(o);
    b.ban_byte(ban);
    match b.build_many(patterns) {
        Err(e) => Err(e.to_string()),
        Ok(m) => {
            let (final_hir, fast_hir) =
                grep_regex::verif_hooks::verif_take_last_build().ok_or("hook recorded no HIR".to_string())?;
            Ok(Built { matcher: m, final_hir, fast_hir })
        }
    }
}

// ---------------------------------------------------------------- reference

/// The documented smart-case rule, written independently of
/// crates/regex/src/ast.rs: case-insensitive iff the pattern(s) contain at
/// least one literal character and none of the literal characters is uppercase.
fn smart_case_insensitive(asts: &[regex_syntax::ast::Ast]) -> bool {
    use regex_syntax::ast::*;
    fn class_set(s: &ClassSet, lit: &mut bool, up: &mut bool) {
        match s {
            ClassSet::Item(i) => class_item(i, lit, up),
            ClassSet::BinaryOp(b) => {
                class_set(&b.lhs, lit, up);
                class_set(&b.rhs, lit, up);
            }
        }
    }
    fn class_item(i: &ClassSetItem, lit: &mut bool, up: &mut bool) {
        match i {
            ClassSetItem::Literal(l) => {
                *lit = true;
                *up |= l.c.is_uppercase();
            }
            ClassSetItem::Range(r) => {
                *lit = true;
                *up |= r.start.c.is_uppercase() || r.end.c.is_uppercase();
            }
            ClassSetItem::Bracketed(b) => class_set(&b.kind, lit, up),
            ClassSetItem::Union(u) => {
                for x in &u.items {
                    class_item(x, lit, up);
                }
            }
            _ => {}
        }
    }
    fn walk(a: &Ast, lit: &mut bool, up: &mut bool) {
        match a {
            Ast::Literal(l) => {
                *lit = true;
                *up |= l.c.is_uppercase();
            }
            Ast::ClassBracketed(c) => class_set(&c.kind, lit, up),
            Ast::Repetition(r) => walk(&r.ast, lit, up),
            Ast::Group(g) => walk(&g.ast, lit, up),
            Ast::Alternation(x) => {
                for y in &x.asts {
                    walk(y, lit, up);
                }
            }
            Ast::Concat(x) => {
                for y in &x.asts {
                    walk(y, lit, up);
                }
            }
            _ => {}
        }
    }
    let (mut lit, mut up) = (false, false);
    for a in asts {
        walk(a, &mut lit, &mut up);
    }
    lit && !up
}

/// Reference HIR of the user's pattern(s), built from the raw text with only
/// the documented flag meanings: no terminator stripping, no word/line
/// wrapping (those are applied as span conditions by the caller).
pub fn reference_hir(patterns: &[String], o: &ROpts) -> Result<Hir, String> {
    let srcs: Vec<String> =
        patterns.iter().map(|p| if o.fixed { regex_syntax::escape(p) } else { p.clone() }).collect();
    let mut asts = vec![];
    for s in &srcs {
        let ast = regex_syntax::ast::parse::ParserBuilder::new()
            .octal(false)
            .build()
            .parse(s)
            .map_err(|e| e.to_string())?;
        asts.push(ast);
    }
    let ci = match o.case {
        Case::Sensitive => false,
        Case::Insensitive => true,
        Case::Smart => smart_case_insensitive(&asts),
    };
    let mut hirs = vec![];
    for (s, ast) in srcs.iter().zip(asts.iter()) {
        let h = regex_syntax::hir::translate::TranslatorBuilder::new()
            .utf8(false)
            .case_insensitive(ci)
            .multi_line(true)
            .dot_matches_new_line(false)
            .crlf(o.term == Term::Crlf)
            .unicode(o.unicode)
            .build()
            .translate(s, ast)
            .map_err(|e| e.to_string())?;
        hirs.push(h);
    }
    Ok(Hir::alternation(hirs))
}

// ---------------------------------------------------------------- helpers

fn mark_set(bytes: &[u8]) -> [bool; 256] {
    let mut s = [false; 256];
    for &b in bytes {
        s[b as usize] = true;
    }
    s
}

fn no_terminator(enc: &mut Enc, term: &[u8]) {
    for i in 0..enc.l {
        for &t in term {
            enc.assert(&format!("(or (<= n {}) (not (= b{} #x{:02x})))", i, i, t));
        }
    }
}

fn witness(v: &Verdict) -> Option<(Vec<u8>, Vec<(String, i64)>)> {
    if let Verdict::Sat { bytes, ints } = v {
        let n = ints.iter().find(|(k, _)| k == "n").map(|(_, v)| *v).unwrap_or(0) as usize;
        Some((bytes[..n.min(bytes.len())].to_vec(), ints.clone()))
    } else {
        None
    }
}

fn int_of(ints: &[(String, i64)], k: &str) -> usize {
    ints.iter().find(|(n, _)| n == k).map(|(_, v)| *v).unwrap_or(0).max(0) as usize
}

struct Q<'a> {
    ctx: &'a mut Ctx,
    z3: &'a mut Z3,
    program: String,
    /// the program's pattern matches some haystack within the bound
    nonvac: bool,
}

impl<'a> Q<'a> {
    /// Ask; returns the verdict, having cross-checked 1 query in 50 with cvc5.
    fn ask(&mut self, enc: &Enc) -> Verdict {
        let v = self.z3.check(enc);
        self.ctx.queries += 1;
        if self.ctx.queries % 50 == (self.ctx.seed % 50) as usize {
            self.ctx.crosschecked += 1;
            let z = match &v {
                Verdict::Unsat => Some(false),
                Verdict::Sat { .. } => Some(true),
                _ => None,
            };
            let c = cvc5_check(enc, 60_000);
            if z.is_some() && c.is_some() && z != c {
                return Verdict::Unknown(format!("z3 and cvc5 disagree (z3 sat={:?}, cvc5 sat={:?})", z, c));
            }
        }
        v
    }

    fn push(&mut self, kind: &str, status: &str, detail: String, wit: Option<Vec<u8>>, nontrivial: bool) {
        self.ctx.results.push(ObResult {
            kind: kind.to_string(),
            program: self.program.clone(),
            status: status.to_string(),
            detail,
            witness: wit,
            nontrivial: nontrivial && self.nonvac,
        });
    }
}

/// validate the encoder's NFA against regex-automata on concrete haystacks
pub fn alpha_of(ascii: bool, eacute: bool) -> u8 {
    if ascii {
        1
    } else if eacute {
        2
    } else {
        0
    }
}

fn restrict(enc: &mut Enc, alpha: u8) {
    match alpha {
        1 => enc.assume_ascii(),
        2 => enc.assume_ascii_eacute(),
        _ => {}
    }
}

/// `alpha`: 0 = all byte strings, 1 = ASCII only, 2 = ASCII + well-formed U+00E9
fn validate_nfa(nfa: &Nfa, hir: &Hir, samples: &[Vec<u8>], alpha: u8) -> Result<usize, String> {
    let re = regex_automata::meta::Regex::builder()
        .configure(regex_automata::meta::Regex::config().utf8_empty(false))
        .build_from_hir(hir)
        .map_err(|e| format!("cannot build reference engine: {}", e))?;
    let mut n = 0;
    for h in samples {
        if alpha == 1 && h.iter().any(|b| *b >= 0x80) {
            continue;
        }
        if alpha == 2 && !crate::nfa::is_ascii_eacute(h) {
            continue;
        }
        let mine = nfa.all_matches(h, 0, h.len());
        let real = re.find(regex_automata::Input::new(h));
        n += 1;
        match real {
            None => {
                if !mine.is_empty() {
                    return Err(format!("encoder NFA matches {:?} at {:?}, regex-automata does not", h, mine[0]));
                }
            }
            Some(m) => {
                if !mine.contains(&(m.start(), m.end())) {
                    return Err(format!(
                        "regex-automata matches {:?} at {}..{}, encoder NFA does not produce that span",
                        h,
                        m.start(),
                        m.end()
                    ));
                }
            }
        }
    }
    Ok(n)
}

pub fn sample_haystacks(seed: u64) -> Vec<Vec<u8>> {
    let alpha: &[u8] = b"abA _-\n\r\x001.\xc3\xa9\xff";
    let mut out: Vec<Vec<u8>> = vec![vec![]];
    for &a in alpha {
        out.push(vec![a]);
    }
    for &a in alpha {
        for &b in alpha {
            out.push(vec![a, b]);
        }
    }
    let mut rng = crate::corpus::Rng(seed ^ 0xabcdef);
    for _ in 0..200 {
        let len = 3 + rng.below(5);
        out.push((0..len).map(|_| alpha[rng.below(alpha.len())]).collect());
    }
    for s in ["foo bar", "abc", "a\nb", "a\r\nb\r\n", "xfooy", "foo", "ab ab", "\u{e9}a", "Sherlock Holmes"] {
        out.push(s.as_bytes().to_vec());
    }
    out
}

// ---------------------------------------------------------------- the program

pub fn run_program(ctx: &mut Ctx, z3: &mut Z3, patterns: &[String], o: &ROpts) {
    let l = ctx.l;
    let program = format!("{:?} {}", patterns, o.describe());
    let mut q = Q { ctx, z3, program, nonvac: false };
    let term = term_bytes(o.term);
    let reference = reference_hir(patterns, o);
    let built = build_real(patterns, o, None);
    let built = match built {
        Err(e) => {
            // rejected program: nothing to claim about its matches (H-REJECT
            // is asked from the accepted side, below)
            q.ctx.rejected += 1;
            let _ = e;
            return;
        }
        Ok(b) => b,
    };
    q.ctx.accepted += 1;
    let nfa = match Nfa::from_hir(&built.final_hir) {
        Ok(n) => n,
        Err(_) => {
            q.ctx.too_big += 1;
            return;
        }
    };
    // Big (Unicode-class) automata are decided over ASCII lines only: the
    // automaton is restricted to ASCII and every query assumes bytes < 0x80.
    // Small automata are decided over all byte strings (invalid UTF-8 included).
    let big = nfa.n_core() > ASCII_ONLY_ABOVE;
    let ascii = big;
    // Unicode word looks on a small automaton: inputs range over ASCII plus
    // well-formed U+00E9, so that Unicode and ASCII word-ness differ
    let eacute = nfa.uses_unicode_word && !big;
    if big {
        q.ctx.ascii_only += 1;
    }
    // translator validation, every program (on the unrestricted automaton)
    match validate_nfa(&nfa, &built.final_hir, &q.ctx.samples.clone(), alpha_of(ascii, eacute)) {
        Ok(k) => q.ctx.validated += k,
        Err(e) => {
            q.push("encoder-validation", "inconclusive", e, None, false);
            return;
        }
    }
    let nfa = if big { nfa.restrict_ascii() } else { nfa };
    let lt = built.matcher.line_terminator();
    // non-vacuity witness for every obligation of this program: the compiled
    // pattern matches SOME haystack within the bound (concrete evaluation of the
    // sample set first, the solver otherwise)
    let mut nonvac = q.ctx.samples.iter().any(|h| (!ascii || h.iter().all(|b| *b < 0x80)) && (!eacute || crate::nfa::is_ascii_eacute(h)) && nfa.is_match(h, 0, h.len()));
    if !nonvac {
        // long mandatory literals: look for the witness at a length that can hold a match
        let minlen = built.final_hir.properties().minimum_len().unwrap_or(0);
        let lnv = if nfa.n_core() <= 90 && minlen + 1 > l { (minlen + 1).min(30) } else { l };
        let mut enc = Enc::new(lnv);
        restrict(&mut enc, alpha_of(ascii, eacute));
        let sim = enc.sim(&nfa, "0", "n", None);
        enc.assert(&Enc::any(&sim.m));
        nonvac = matches!(q.ask(&enc), Verdict::Sat { .. });
    }
    q.nonvac = nonvac;

    // ---- H-TERM: no match contains the terminator
    if lt.is_some() && q.ctx.want("H-TERM") {
        let mut enc = Enc::new(l);
        restrict(&mut enc, alpha_of(ascii, eacute));
        let sim = enc.sim(&nfa, "0", "n", Some(&mark_set(&term)));
        enc.assert(&Enc::any(&sim.m1));
        match q.ask(&enc) {
            Verdict::Unsat => q.push("H-TERM", "discharged", String::new(), None, true),
            v @ Verdict::Sat { .. } => {
                let (h, _) = witness(&v).unwrap();
                let mut hit = false;
                for s in 0..=h.len() {
                    if let Ok(Some(m)) = built.matcher.find_at(&h, s) {
                        if h[m.start()..m.end()].iter().any(|b| term.contains(b)) {
                            hit = true;
                        }
                    }
                }
                let st = if hit { "failed" } else { "inconclusive" };
                q.push("H-TERM", st, format!("match containing the line terminator; replay find_at: {}", hit), Some(h), false);
            }
            Verdict::Unknown(e) => q.push("H-TERM", "inconclusive", e, None, false),
        }
    }

    // ---- H-NMB: declared non-matching bytes occur in no match
    if let (Some(set), true) = (built.matcher.non_matching_bytes(), q.ctx.want("H-NMB")) {
        let mut mark = [false; 256];
        let mut any = false;
        for b in 0..=255u8 {
            if set.contains(b) {
                mark[b as usize] = true;
                any = true;
            }
        }
        if ascii || eacute {
            for b in 128..256 {
                mark[b] = false;
            }
        }
        if any {
            let mut enc = Enc::new(l);
            restrict(&mut enc, alpha_of(ascii, eacute));
            let sim = enc.sim(&nfa, "0", "n", Some(&mark));
            enc.assert(&Enc::any(&sim.m1));
            match q.ask(&enc) {
                Verdict::Unsat => q.push("H-NMB", "discharged", String::new(), None, true),
                v @ Verdict::Sat { .. } => {
                    let (h, _) = witness(&v).unwrap();
                    let mut hit = false;
                    for s in 0..=h.len() {
                        if let Ok(Some(m)) = built.matcher.find_at(&h, s) {
                            if h[m.start()..m.end()].iter().any(|b| set.contains(*b)) {
                                hit = true;
                            }
                        }
                    }
                    let st = if hit { "failed" } else { "inconclusive" };
                    q.push("H-NMB", st, format!("match containing a byte declared non-matching; replay: {}", hit), Some(h), false);
                }
                Verdict::Unknown(e) => q.push("H-NMB", "inconclusive", e, None, false),
            }
        }
    }

    // ---- H-PREFILTER: the fast candidate-line regex never passes over a
    // line that contains a match
    if let (Some(fh), true) = (&built.fast_hir, q.ctx.want("H-PREFILTER")) {
        if let Ok(fnfa) = Nfa::from_hir(fh) {
            let fnfa = if ascii { fnfa.restrict_ascii() } else { fnfa };
            // long literals need lines long enough to contain them: for small
            // automata the bound follows the longest literal (up to 30 bytes)
            let lmax = fh.properties().maximum_len().unwrap_or(0);
            let le = if nfa.n_core() <= 90 && lmax + 3 > l { (lmax + 3).min(30) } else { l };
            let mut enc = Enc::new(le);
            restrict(&mut enc, alpha_of(ascii, eacute));
            no_terminator(&mut enc, &term);
            let a = enc.sim(&nfa, "0", "n", None);
            let b = enc.sim(&fnfa, "0", "n", None);
            enc.assert(&Enc::any(&a.m));
            enc.assert(&format!("(not {})", Enc::any(&b.m)));
            match q.ask(&enc) {
                Verdict::Unsat => q.push("H-PREFILTER", "discharged", format!("fast line regex {}", fh), None, true),
                v @ Verdict::Sat { .. } => {
                    let (h, _) = witness(&v).unwrap();
                    let cand = built.matcher.find_candidate_line(&h).ok().flatten();
                    let real = built.matcher.is_match(&h).unwrap_or(false);
                    let hit = real && cand.is_none();
                    let st = if hit { "failed" } else { "inconclusive" };
                    q.push(
                        "H-PREFILTER",
                        st,
                        format!("line matches but fast regex {} finds no candidate; replay is_match={} candidate={:?}", fh, real, cand.map(|c| matches!(c, LineMatchKind::Candidate(_)))),
                        Some(h),
                        false,
                    );
                }
                Verdict::Unknown(e) => q.push("H-PREFILTER", "inconclusive", e, None, false),
            }
        }
    }

    // ---- H-EXTRACT: the inner-literal extractor's contract on the final HIR
    // (every match of the pattern in a terminator-free line contains one of the
    // literals), whether or not the builder chose to use the literals
    if lt.is_some() && q.ctx.want("H-EXTRACT") {
        if let Some(lits) = grep_regex::verif_hooks::verif_extract(&built.final_hir) {
            let lmax = lits.iter().map(|x| x.len()).max().unwrap_or(0);
            let le = if nfa.n_core() <= 90 && lmax + 3 > l { (lmax + 3).min(30) } else { l };
            if !lits.is_empty() && lmax <= le {
                let lh = Hir::alternation(lits.iter().map(|x| Hir::literal(x.clone())).collect());
                if let Ok(lnfa) = Nfa::from_hir(&lh) {
                    let lnfa = if ascii { lnfa.restrict_ascii() } else { lnfa };
                    let mut enc = Enc::new(le);
                    restrict(&mut enc, alpha_of(ascii, eacute));
                    no_terminator(&mut enc, &term);
                    let a = enc.sim(&nfa, "0", "n", None);
                    let b = enc.sim(&lnfa, "0", "n", None);
                    enc.assert(&Enc::any(&a.m));
                    enc.assert(&format!("(not {})", Enc::any(&b.m)));
                    match q.ask(&enc) {
                        Verdict::Unsat => q.push("H-EXTRACT", "discharged", format!("{} literals", lits.len()), None, true),
                        v @ Verdict::Sat { .. } => {
                            let (h, _) = witness(&v).unwrap();
                            let real = built.matcher.is_match(&h).unwrap_or(false);
                            let has_lit = lits.iter().any(|x| x.is_empty() || h.windows(x.len()).any(|w| w == &x[..]));
                            let hit = real && !has_lit;
                            let st = if hit { "failed" } else { "inconclusive" };
                            q.push("H-EXTRACT", st, format!("line matches but contains none of the extracted literals {:?}", lits.iter().map(|x| String::from_utf8_lossy(x).to_string()).collect::<Vec<_>>()), Some(h), false);
                        }
                        Verdict::Unknown(e) => q.push("H-EXTRACT", "inconclusive", e, None, false),
                    }
                }
            }
        }
    }

    // ---- H-OPTS (C01): on terminator-free lines the compiled pattern means
    // what the options say, measured against the raw pattern
    if let (Ok(rh0), true) = (&reference, q.ctx.want("H-OPTS")) {
        let rh = &wrap_reference(rh0, o);
        if let Ok(rnfa) = Nfa::from_hir(rh) {
            let rascii = ascii || rnfa.n_core() > ASCII_ONLY_ABOVE;
            let reacute = !rascii && (eacute || rnfa.uses_unicode_word);
            let ok_ref = validate_nfa(&rnfa, rh, &q.ctx.samples.clone(), alpha_of(rascii, reacute));
            if let Err(e) = ok_ref {
                q.push("encoder-validation", "inconclusive", e, None, false);
            } else {
                let rnfa = if rascii { rnfa.restrict_ascii() } else { rnfa };
                let nfa_o = if rascii && !ascii { nfa.restrict_ascii() } else { nfa.clone() };
                let nfa = &nfa_o;
                let mut enc = Enc::new(l);
                restrict(&mut enc, alpha_of(rascii, reacute));
                no_terminator(&mut enc, &term);
                if o.term == Term::Nul {
                    // NUL-separated records may contain \n, where ^/$ (and hence
                    // -x) keep their line meaning: a documented grey zone that is
                    // left outside the claim
                    no_terminator(&mut enc, b"\n");
                }
                let a = enc.sim(nfa, "0", "n", None);
                let real_m = Enc::any(&a.m);
                let want = ref_match_term(&mut enc, &rnfa, o);
                enc.assert(&format!("(xor {} {})", real_m, want));
                match q.ask(&enc) {
                    Verdict::Unsat => q.push("H-OPTS", "discharged", String::new(), None, true),
                    v @ Verdict::Sat { .. } => {
                        let (h, _) = witness(&v).unwrap();
                        let real = built.matcher.is_match(&h).unwrap_or(false);
                        let want = ref_match_concrete(&rnfa, o, &h);
                        let want2 = ref_match_by_engine(rh, &h);
                        let st = if want2.is_none() || want2 != Some(want) {
                            "inconclusive"
                        } else if real != want {
                            "failed"
                        } else {
                            "inconclusive"
                        };
                        q.push("H-OPTS", st, format!("line: matcher says {}, options' meaning says {} (independent engine: {:?})", real, want, want2), Some(h), false);
                    }
                    Verdict::Unknown(e) => q.push("H-OPTS", "inconclusive", e, None, false),
                }
            }
        }
    }

    // ---- H-LOC (C01/C11): matches found in a buffer are exactly the matches
    // of the stripped lines (what the fast line path relies on)
    if lt.is_some() && o.term != Term::Nul && q.ctx.want("H-LOC") {
        h_loc(&mut q, &nfa, &built, o, alpha_of(ascii, eacute));
    }

}

/// Reference HIR wrapped according to -x / -w, written from the documented
/// meaning: -x = the match spans the whole line (haystack anchors on a haystack
/// that IS the line); -w = the bytes next to the match are not word bytes.
pub fn wrap_reference(rh: &Hir, o: &ROpts) -> Hir {
    use regex_syntax::hir::Look;
    if o.whole_line {
        Hir::concat(vec![Hir::look(Look::Start), rh.clone(), Hir::look(Look::End)])
    } else if o.word {
        let (s, e) = if o.unicode {
            (Look::WordStartHalfUnicode, Look::WordEndHalfUnicode)
        } else {
            (Look::WordStartHalfAscii, Look::WordEndHalfAscii)
        };
        Hir::concat(vec![Hir::look(s), rh.clone(), Hir::look(e)])
    } else {
        rh.clone()
    }
}

fn ref_match_term(enc: &mut Enc, rnfa: &Nfa, _o: &ROpts) -> String {
    let a = enc.sim(rnfa, "0", "n", None);
    Enc::any(&a.m)
}

fn ref_match_concrete(rnfa: &Nfa, _o: &ROpts, h: &[u8]) -> bool {
    rnfa.is_match(h, 0, h.len())
}

/// the same reference decided by regex-automata (guards the encoder's NFA)
fn ref_match_by_engine(rh_wrapped: &Hir, h: &[u8]) -> Option<bool> {
    let re = regex_automata::meta::Regex::builder()
        .configure(regex_automata::meta::Regex::config().utf8_empty(false))
        .build_from_hir(rh_wrapped)
        .ok()?;
    Some(re.is_match(h))
}

/// "x is a line start of the buffer": x == 0 or b[x-1] == '\n'
fn linestart_term(l: usize, x: &str) -> String {
    let mut parts = vec![format!("(= {} 0)", x)];
    for i in 1..=l {
        parts.push(format!("(and (= {} {}) (= b{} #x0a))", x, i, i - 1));
    }
    format!("(or {})", parts.join(" "))
}

/// b[x] == c for symbolic Int x
fn byte_at_is(l: usize, x: &str, c: u8) -> String {
    let mut parts = vec![];
    for i in 0..l {
        parts.push(format!("(and (= {} {}) (= b{} #x{:02x}))", x, i, i, c));
    }
    format!("(or false {})", parts.join(" "))
}

/// H-LOC.  Buffer b[0..n] may contain terminators.  Line j = [ls, le) with
/// content [ls, lc).  A: the compiled pattern run over the haystack b[p0..n]
/// for a line start p0 <= ls (this is what the fast line path hands to the
/// matcher).  B: the compiled pattern run over the stripped line alone.
/// Obligation: (A has a match ending at an offset that lines::locate maps to
/// line j)  <=>  (B has a match).
fn h_loc(q: &mut Q, nfa: &Nfa, built: &Built, o: &ROpts, alpha: u8) {
    let l = q.ctx.l;
    let crlf = o.term == Term::Crlf;
    let mut enc = Enc::new(l);
    restrict(&mut enc, alpha);
    for v in ["p0", "ls", "lc", "le"] {
        enc.declare_int(v);
    }
    enc.assert("(and (<= 0 p0) (<= p0 ls) (<= ls lc) (<= lc le) (<= le n))");
    let t = linestart_term(l, "p0");
    enc.assert(&t);
    let t = linestart_term(l, "ls");
    enc.assert(&t);
    for i in 0..l {
        enc.assert(&format!("(or (< {} ls) (<= lc {}) (not (= b{} #x0a)))", i, i, i));
    }
    let lf_at_lc = byte_at_is(l, "lc", b'\n');
    let unterminated = "(and (= lc n) (= le n))".to_string();
    if !crlf {
        enc.assert(&format!("(or {} (and {} (= le (+ lc 1))))", unterminated, lf_at_lc));
    } else {
        // content excludes the \r of a final \r\n; a lone \n terminates too
        let cr_at_lc = byte_at_is(l, "lc", b'\r');
        let lf_after = byte_at_is(l, "(+ lc 1)", b'\n');
        let cr_before = byte_at_is(l, "(- lc 1)", b'\r');
        enc.assert(&format!(
            "(or {} (and {} (= le (+ lc 1)) (or (= lc ls) (not {}))) (and {} {} (= le (+ lc 2))))",
            unterminated, lf_at_lc, cr_before, cr_at_lc, lf_after
        ));
        // an unterminated last line's content must not end in a \r that a
        // following \n would have claimed: nothing to add, there is no \n
    }
    let a = enc.sim(nfa, "p0", "n", None);
    let b = enc.sim(nfa, "ls", "lc", None);
    // offsets that lines::locate maps to line j: ls..=lc, and between \r and \n
    let mut in_line = vec![];
    for e in 0..=l {
        let loc = if crlf {
            format!("(and (<= ls {e}) (or (<= {e} lc) (and (= {e} (+ lc 1)) (= le (+ lc 2)))))", e = e)
        } else {
            format!("(and (<= ls {e}) (<= {e} lc))", e = e)
        };
        // a match ending exactly at the end of the buffer past a terminator is
        // not reported ("matched beyond the end of the buffer")
        in_line.push(format!("(and {} {})", loc, a.m[e]));
    }
    let lhs = Enc::any(&in_line);
    let rhs = Enc::any(&b.m);
    enc.assert(&format!("(xor {} {})", lhs, rhs));
    match q.ask(&enc) {
        Verdict::Unsat => q.push("H-LOC", "discharged", String::new(), None, true),
        v @ Verdict::Sat { .. } => {
            let (h, ints) = witness(&v).unwrap();
            let (ls, lc) = (int_of(&ints, "ls"), int_of(&ints, "lc"));
            // replay end-to-end: the real searcher (default strategy choice)
            // against per-line is_match on properly stripped content
            let rep = crate::replay_search_lines(&built.matcher, &h, o.term);
            let st = match &rep {
                Ok((got, want)) if got != want => "failed",
                Ok(_) => "inconclusive",
                Err(_) => "inconclusive",
            };
            q.push(
                "H-LOC",
                st,
                format!("buffer where the pattern's matches are not line-local (line content {}..{}); real searcher vs per-line: {:?}", ls, lc, rep),
                Some(h),
                false,
            );
        }
        Verdict::Unknown(e) => q.push("H-LOC", "inconclusive", e, None, false),
    }
}
