//! rgsmt -- Engine H of /verif (DESIGN.md 1.2): the real ripgrep front ends are
//! run concretely on an enumerated program (pattern / glob / ignore line), the
//! HIR they produce is encoded as a bounded NFA run in SMT-LIB2, and z3 decides
//! the obligation for ALL inputs up to the length bound.  sat witnesses are
//! replayed natively before anything is reported.

mod corpus;
mod globprog;
mod ignoreprog;
mod nfa;
mod regexprog;
mod smt;
mod walkreplay;

use grep_matcher::Matcher;
use std::fmt::Write as _;

pub struct ObResult {
    pub kind: String,
    pub program: String,
    pub status: String, // discharged | failed | inconclusive
    pub detail: String,
    pub witness: Option<Vec<u8>>,
    pub nontrivial: bool,
}

pub struct Ctx {
    pub l: usize,
    pub seed: u64,
    pub queries: usize,
    pub crosschecked: usize,
    pub accepted: usize,
    pub rejected: usize,
    pub too_big: usize,
    pub ascii_only: usize,
    pub validated: usize,
    pub samples: Vec<Vec<u8>>,
    pub results: Vec<ObResult>,
    pub kinds: Vec<String>,
}

impl Ctx {
    pub fn want(&self, kind: &str) -> bool {
        self.kinds.is_empty() || self.kinds.iter().any(|k| k == kind)
    }
}

pub fn json_str(s: &str) -> String {
    let mut o = String::from("\"");
    for c in s.chars() {
        match c {
            '"' => o.push_str("\\\""),
            '\\' => o.push_str("\\\\"),
            '\n' => o.push_str("\\n"),
            '\r' => o.push_str("\\r"),
            '\t' => o.push_str("\\t"),
            c if (c as u32) < 0x20 => {
                let _ = write!(o, "\\u{:04x}", c as u32);
            }
            c => o.push(c),
        }
    }
    o.push('"');
    o
}

/// bytes rendered as an escaped ASCII string (for humans) inside JSON
pub fn json_bytes(b: &[u8]) -> String {
    let mut s = String::new();
    for &c in b {
        match c {
            b'\n' => s.push_str("\\n"),
            b'\r' => s.push_str("\\r"),
            b'\\' => s.push_str("\\\\"),
            0x20..=0x7e => s.push(c as char),
            _ => {
                let _ = write!(s, "\\x{:02x}", c);
            }
        }
    }
    json_str(&s)
}

/// Replay helper for C01: run the REAL searcher (its own strategy choice, i.e.
/// the fast line path when the matcher allows it) over `buf`, and compare the
/// set of reported line indices with per-line `is_match` on the properly
/// stripped content.
pub fn replay_search_lines(
    m: &grep_regex::RegexMatcher,
    buf: &[u8],
    term: corpus::Term,
) -> Result<(Vec<usize>, Vec<usize>), String> {
    use grep_searcher::{SearcherBuilder, Sink, SinkMatch};
    struct Collect(Vec<u64>);
    impl Sink for Collect {
        type Error = std::io::Error;
        fn matched(&mut self, _s: &grep_searcher::Searcher, m: &SinkMatch<'_>) -> Result<bool, std::io::Error> {
            self.0.push(m.absolute_byte_offset());
            Ok(true)
        }
    }
    let lt = match term {
        corpus::Term::Lf => grep_matcher::LineTerminator::byte(b'\n'),
        corpus::Term::Crlf => grep_matcher::LineTerminator::crlf(),
        corpus::Term::Nul => grep_matcher::LineTerminator::byte(0),
    };
    let mut searcher = SearcherBuilder::new().line_terminator(lt).line_number(false).bom_sniffing(false).build();
    let mut sink = Collect(vec![]);
    searcher.search_slice(m, buf, &mut sink).map_err(|e| e.to_string())?;
    // lines
    let tb = lt.as_byte();
    let mut starts = vec![];
    let mut i = 0;
    while i < buf.len() {
        starts.push(i);
        match buf[i..].iter().position(|&b| b == tb) {
            Some(k) => i += k + 1,
            None => i = buf.len(),
        }
    }
    let mut got = vec![];
    for off in &sink.0 {
        if let Some(k) = starts.iter().position(|s| *s as u64 == *off) {
            got.push(k);
        }
    }
    let mut want = vec![];
    for (k, &s) in starts.iter().enumerate() {
        let e = if k + 1 < starts.len() { starts[k + 1] } else { buf.len() };
        let mut line = &buf[s..e];
        if line.last() == Some(&tb) {
            line = &line[..line.len() - 1];
            if term == corpus::Term::Crlf && line.last() == Some(&b'\r') {
                line = &line[..line.len() - 1];
            }
        }
        if m.is_match(line).map_err(|_| "matcher error".to_string())? {
            want.push(k);
        }
    }
    Ok((got, want))
}

fn arg(args: &[String], name: &str, default: &str) -> String {
    args.iter().position(|a| a == name).and_then(|i| args.get(i + 1).cloned()).unwrap_or(default.to_string())
}

fn main() {
    let args: Vec<String> = std::env::args().collect();
    if args.len() < 2 {
        eprintln!("usage: rgsmt <regex|glob> --tier T --seed N --out FILE --repo DIR [--l N] [--shard i/n] [--only substr]");
        std::process::exit(2);
    }
    let mode = args[1].clone();
    if mode == "walkreplay" {
        std::process::exit(walkreplay::run(&args));
    }
    let tier = arg(&args, "--tier", "quick");
    let seed: u64 = arg(&args, "--seed", "0").parse().unwrap_or(0);
    let out = arg(&args, "--out", "/dev/stdout");
    let repo = arg(&args, "--repo", "/repo");
    let only = arg(&args, "--only", "");
    let shard = arg(&args, "--shard", "0/1");
    let (si, sn) = {
        let mut it = shard.split('/');
        let a: usize = it.next().unwrap().parse().unwrap();
        let b: usize = it.next().unwrap().parse().unwrap();
        (a, b)
    };
    let default_l = if tier == "thorough" { "8" } else { "7" };
    let l: usize = arg(&args, "--l", default_l).parse().unwrap();
    let mut ctx = Ctx {
        l,
        seed,
        queries: 0,
        crosschecked: 0,
        accepted: 0,
        rejected: 0,
        too_big: 0,
        ascii_only: 0,
        validated: 0,
        samples: regexprog::sample_haystacks(seed),
        results: vec![],
        kinds: arg(&args, "--kinds", "").split(',').filter(|k| !k.is_empty()).map(|k| k.to_string()).collect(),
    };
    let mut z3 = smt::Z3::new(60_000);
    let t0 = std::time::Instant::now();
    let mut programs = 0usize;
    match mode.as_str() {
        "regex" => {
            let pats = corpus::regex_patterns(&tier, seed, std::path::Path::new(&repo));
            let mut idx = 0usize;
            for p in &pats {
                if !only.is_empty() && !p.contains(&only) {
                    continue;
                }
                for o in corpus::regex_options(p, &tier, seed) {
                    idx += 1;
                    if idx % sn != si {
                        continue;
                    }
                    programs += 1;
                    regexprog::run_program(&mut ctx, &mut z3, &[p.clone()], &o);
                }
            }
            // multi-pattern programs (several -e)
            let mut rng = corpus::Rng(seed ^ 77);
            let nmulti = if tier == "thorough" { 400 } else { 60 };
            for k in 0..nmulti {
                let a = pats[rng.below(pats.len())].clone();
                let b = pats[rng.below(pats.len())].clone();
                if k % sn != si || (!only.is_empty() && !a.contains(&only)) {
                    continue;
                }
                let os = corpus::regex_options(&format!("{}|{}", a, b), &tier, seed);
                programs += 1;
                regexprog::run_program(&mut ctx, &mut z3, &[a, b], &os[os.len() - 1]);
            }
        }
        "glob" => {
            programs = globprog::run_all(&mut ctx, &mut z3, &tier, seed, std::path::Path::new(&repo), si, sn, &only);
        }
        "ignore" => {
            programs = ignoreprog::run_all(&mut ctx, &mut z3, &tier, seed, std::path::Path::new(&repo), si, sn, &only);
        }
        _ => {
            eprintln!("unknown mode");
            std::process::exit(2);
        }
    }
    // output
    let mut o = String::new();
    o.push_str("{\n");
    let _ = writeln!(o, " \"mode\": {},", json_str(&mode));
    let _ = writeln!(o, " \"tier\": {}, \"seed\": {}, \"L\": {},", json_str(&tier), seed, l);
    let _ = writeln!(
        o,
        " \"programs\": {}, \"accepted\": {}, \"rejected\": {}, \"too_big\": {}, \"ascii_only_programs\": {}, \"queries\": {}, \"crosschecked_cvc5\": {}, \"encoder_validation_runs\": {},",
        programs, ctx.accepted, ctx.rejected, ctx.too_big, ctx.ascii_only, ctx.queries, ctx.crosschecked, ctx.validated
    );
    let _ = writeln!(o, " \"z3_time_ms\": {}, \"wall_ms\": {},", z3.time_ms, t0.elapsed().as_millis());
    o.push_str(" \"results\": [\n");
    // discharged results are summarised by count; keep a few samples
    let mut counts: std::collections::BTreeMap<(String, String), usize> = Default::default();
    for r in &ctx.results {
        *counts.entry((r.kind.clone(), r.status.clone())).or_default() += 1;
        if r.status == "discharged" && r.nontrivial {
            *counts.entry((r.kind.clone(), "nontrivial".to_string())).or_default() += 1;
        }
    }
    let mut first = true;
    let mut kept: std::collections::BTreeMap<String, usize> = Default::default();
    for r in &ctx.results {
        let keep = if r.status == "discharged" {
            let k = kept.entry(r.kind.clone()).or_default();
            *k += 1;
            *k <= 3
        } else {
            true
        };
        if !keep {
            continue;
        }
        if !first {
            o.push_str(",\n");
        }
        first = false;
        let _ = write!(
            o,
            "  {{\"kind\": {}, \"program\": {}, \"status\": {}, \"detail\": {}, \"witness\": {}, \"nontrivial\": {}}}",
            json_str(&r.kind),
            json_str(&r.program),
            json_str(&r.status),
            json_str(&r.detail),
            r.witness.as_ref().map(|w| json_bytes(w)).unwrap_or("null".into()),
            r.nontrivial
        );
    }
    o.push_str("\n ],\n \"counts\": {");
    let mut firstc = true;
    for ((k, s), c) in &counts {
        if !firstc {
            o.push_str(", ");
        }
        firstc = false;
        let _ = write!(o, "{}: {}", json_str(&format!("{}:{}", k, s)), c);
    }
    o.push_str("}\n}\n");
    std::fs::write(&out, o).expect("write out");
}
