//! Program corpora: regex patterns (+ builder options), globs, ignore lines.
//! "Programs are enumerated, inputs are solved" (DESIGN.md 1.2).

use std::path::Path;

pub struct Rng(pub u64);
impl Rng {
    pub fn next(&mut self) -> u64 {
        // splitmix64
        self.0 = self.0.wrapping_add(0x9E3779B97F4A7C15);
        let mut z = self.0;
        z = (z ^ (z >> 30)).wrapping_mul(0xBF58476D1CE4E5B9);
        z = (z ^ (z >> 27)).wrapping_mul(0x94D049BB133111EB);
        z ^ (z >> 31)
    }
    pub fn below(&mut self, n: usize) -> usize {
        (self.next() % (n as u64)) as usize
    }
}

pub fn hash_str(s: &str) -> u64 {
    let mut h: u64 = 0xcbf29ce484222325;
    for b in s.bytes() {
        h ^= b as u64;
        h = h.wrapping_mul(0x100000001b3);
    }
    h
}

#[derive(Clone, Copy, Debug, PartialEq, Eq)]
pub enum Case {
    Sensitive,
    Insensitive,
    Smart,
}

#[derive(Clone, Copy, Debug, PartialEq, Eq)]
pub enum Term {
    Lf,
    Crlf,
    Nul,
}

#[derive(Clone, Debug)]
pub struct ROpts {
    pub case: Case,
    pub word: bool,
    pub whole_line: bool,
    pub fixed: bool,
    pub term: Term,
    pub unicode: bool,
}

impl ROpts {
    pub fn base() -> ROpts {
        ROpts { case: Case::Sensitive, word: false, whole_line: false, fixed: false, term: Term::Lf, unicode: true }
    }
    pub fn describe(&self) -> String {
        let mut v: Vec<&str> = vec![];
        match self.case {
            Case::Sensitive => {}
            Case::Insensitive => v.push("-i"),
            Case::Smart => v.push("-S"),
        }
        if self.word {
            v.push("-w");
        }
        if self.whole_line {
            v.push("-x");
        }
        if self.fixed {
            v.push("-F");
        }
        match self.term {
            Term::Lf => {}
            Term::Crlf => v.push("--crlf"),
            Term::Nul => v.push("--null-data"),
        }
        if !self.unicode {
            v.push("--no-unicode");
        }
        v.join(" ")
    }
}

pub const ATOMS: &[&str] = &[
    "a", "b", "A", ".", r"\w", r"\s", r"\d", "[ab]", "[^a]", r"\b", r"\B", "^", "$", r"\r", r"\x00",
    "é", r"\n", r"\W", "-", r"[a\n]", r"\S",
];
pub const POSTFIX: &[&str] = &["", "*", "+", "?", "{2}", "*?"];

/// exhaustive: all sequences of `len` items, item = atom + postfix
fn seqs(len: usize, atoms: &[&str], post: &[&str], out: &mut Vec<String>) {
    fn rec(len: usize, atoms: &[&str], post: &[&str], cur: &mut String, out: &mut Vec<String>) {
        if len == 0 {
            out.push(cur.clone());
            return;
        }
        for a in atoms {
            for p in post {
                // a postfix operator on an assertion is legal but uninteresting
                let save = cur.len();
                cur.push_str(a);
                cur.push_str(p);
                rec(len - 1, atoms, post, cur, out);
                cur.truncate(save);
            }
        }
    }
    let mut cur = String::new();
    rec(len, atoms, post, &mut cur, out);
}

/// Curated patterns: the shapes the property texts single out, plus patterns
/// in the spirit of the repository's own tests.
pub const CURATED: &[&str] = &[
    r"\w+foo\w+", r"foo\w+bar", r"(?:foo|bar)\w", r"\bfoo\b", r"foo|bar|baz", r"\s+foo", r"[a-z]+\d{2}",
    r"a.c", r"a.*c", r"^a", r"a$", r"^$", r"^a$", r"(a|b)*c", r"a{2,3}b", r"(?i)abc", r"ab(?i)cd", r"\Bab",
    r"ab\B", r"\b", r"\B", r"a\s*b", r"a\sb", r"[^b]+", r"[^\n]+a", r"a[^a]b", r"(?:)", r"a?", r"a*",
    r"(foo)(bar)?", r"(?P<x>a)b", r"\pL+", r"\p{Greek}", r"δ", r"é+", r"[é-ë]", r"(?-u:\w)a", r"(?-u:\xFF)",
    r"\x00", r"a\x00b", r"[\x00a]", r"a\r", r"a\r?$", r"\r$", r"^\r", r"a\r*b", r"fo+\w+ba", r"(?m)^b",
    r"\w+\s\w+", r"x\w{3}y", r"abc\w", r"\wabc", r"\w+abc\w+def\w+", r"(ab|cd)\w+(ef|gh)", r"a+b+c+",
    // around the inner-literal extractor's limits (repeat 10, total 64, class 10, literal length)
    r"a{10}b", r"a{11}b", r"xa{11}b", r"x(?:ab){11}c", r"\bx(?:ab){11}c\b", r"-0{12}-", r"#(?:-=){12}#", r"[ab]{11}c",
    r"\w(?:ab){11}\w", r"(?:ab){5,7}c", r"x[a-k]y", r"x[a-j]y", r"\w[ab][cd][ef][gh]\w", r"abcdefghijklmnopqrstuvwxyz\w",
    r"\wfoo(?:bar)?baz\w", r"\w(?:foo|bar|baz|quux)\w", r"\s(?:a|b|c|d|e|f|g|h|i|j|k)x\s",
    // raw (unescaped) terminator bytes in the pattern text
    "foo\r", "a\rb", "\r", "a\nb", "foo\n", "\r\n", "a\r\n",
    r"Sherlock", r"\bSherlock\b", r"Sherlock|Watson", r"\w{5}\s+Holmes", r"[A-Z]\w+", r"-2", r"\+", r"a\.b",
];

pub fn regex_patterns(tier: &str, seed: u64, repo: &Path) -> Vec<String> {
    let mut out: Vec<String> = vec![];
    for p in CURATED {
        out.push(p.to_string());
    }
    out.extend(repo_test_patterns(repo));
    // exhaustive length 1, and length 2 over the full atom set without postfix
    seqs(1, ATOMS, POSTFIX, &mut out);
    seqs(2, ATOMS, &[""], &mut out);
    // random larger ones
    let mut rng = Rng(seed ^ 0x5eed);
    let nrand = if tier == "thorough" { 1500 } else { 500 };
    for _ in 0..nrand {
        let len = 2 + rng.below(3);
        let mut s = String::new();
        let mut depth = 0;
        for k in 0..len {
            if rng.below(7) == 0 {
                s.push('(');
                depth += 1;
            }
            s.push_str(ATOMS[rng.below(ATOMS.len())]);
            s.push_str(POSTFIX[rng.below(POSTFIX.len())]);
            if depth > 0 && rng.below(3) == 0 {
                s.push(')');
                s.push_str(POSTFIX[rng.below(POSTFIX.len())]);
                depth -= 1;
            }
            if k + 1 < len && rng.below(5) == 0 {
                s.push('|');
            }
        }
        while depth > 0 {
            s.push(')');
            depth -= 1;
        }
        out.push(s);
    }
    // (the full two-atom x postfix product, ~40 min on 12 cores, was dropped from the thorough tier)
    let mut seen = std::collections::HashSet::new();
    out.retain(|p| seen.insert(p.clone()));
    out
}

/// Best-effort extraction of pattern literals from the repository's own tests
/// (so new tests join the corpus automatically).
pub fn repo_test_patterns(repo: &Path) -> Vec<String> {
    let mut out = vec![];
    let files = [
        "crates/regex/src/matcher.rs",
        "crates/regex/src/literal.rs",
        "crates/regex/src/strip.rs",
        "crates/regex/src/non_matching.rs",
        "crates/regex/src/ast.rs",
        "crates/regex/src/ban.rs",
        "crates/searcher/src/searcher/glue.rs",
        "tests/regression.rs",
        "tests/feature.rs",
        "tests/misc.rs",
    ];
    for f in files {
        let Ok(s) = std::fs::read_to_string(repo.join(f)) else { continue };
        // only the #[cfg(test)] tail of library files
        let body = match s.find("#[cfg(test)]") {
            Some(i) if f.starts_with("crates/") => &s[i..],
            _ => &s[..],
        };
        let bytes = body.as_bytes();
        let mut i = 0;
        while i + 2 < bytes.len() {
            // raw strings r"..." only: these are overwhelmingly patterns
            if bytes[i] == b'r' && bytes[i + 1] == b'"' && (i == 0 || !bytes[i - 1].is_ascii_alphanumeric()) {
                let start = i + 2;
                if let Some(len) = body[start..].find('"') {
                    let lit = &body[start..start + len];
                    if !lit.is_empty() && lit.len() <= 24 && !lit.contains('\n') {
                        out.push(lit.to_string());
                    }
                    i = start + len + 1;
                    continue;
                }
            }
            i += 1;
        }
    }
    out
}

/// Option combinations tried for one pattern: always the base, then a few
/// chosen by hash(pattern, seed) from the full product.
pub fn regex_options(pattern: &str, tier: &str, seed: u64) -> Vec<ROpts> {
    let mut all = vec![];
    for case in [Case::Sensitive, Case::Insensitive, Case::Smart] {
        for (word, whole) in [(false, false), (true, false), (false, true)] {
            for fixed in [false, true] {
                for term in [Term::Lf, Term::Crlf, Term::Nul] {
                    for unicode in [true, false] {
                        all.push(ROpts { case, word, whole_line: whole, fixed, term, unicode });
                    }
                }
            }
        }
    }
    let mut out = vec![ROpts::base()];
    let mut crlf = ROpts::base();
    crlf.term = Term::Crlf;
    out.push(crlf);
    if pattern.contains('\r') || pattern.contains('\n') {
        for term in [Term::Lf, Term::Crlf] {
            let mut o = ROpts::base();
            o.fixed = true;
            o.term = term;
            out.push(o);
        }
    }
    if pattern.contains('{') || pattern.contains("\\w") {
        // the inner-literal path is taken for regexes the engine does not
        // accelerate itself: -w and Unicode word boundaries
        let mut o = ROpts::base();
        o.word = true;
        out.push(o);
    }
    let mut rng = Rng(hash_str(pattern) ^ seed);
    let k = if tier == "thorough" { 4 } else { 3 };
    for _ in 0..k {
        out.push(all[rng.below(all.len())].clone());
    }
    out
}
