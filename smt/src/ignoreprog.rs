//! C04 obligations (gitignore semantics).
//!
//!  I-LINE  per ignore line: the glob ripgrep compiles for it (obtained from the
//!          real `Gitignore` through a solver-chosen matching path, then
//!          `Glob::actual()` rebuilt with the options gitignore.rs uses) means,
//!          for ALL well-formed relative paths up to L bytes over the path
//!          alphabet, what gitignore(5) says (reference compiled independently
//!          from the line's text).  A sat witness is replayed through the real
//!          `Gitignore` (top-down, as the walker does) AND through
//!          `git check-ignore --no-index`: ripgrep != git is a violation;
//!          ripgrep == git != reference means the reference is wrong
//!          (inconclusive, never an alarm).
//!  I-FILE  two-line ignore files (last match wins, `!`, directory-only):
//!          one solver-chosen path per satisfiable combination of the two
//!          lines' reference verdicts x is_dir, executed on the real
//!          `Gitignore` and on git.

use crate::corpus::Rng;
use crate::nfa::Nfa;
use crate::smt::{Enc, Verdict, Z3};
use crate::{Ctx, ObResult};
use ignore::gitignore::{Gitignore, GitignoreBuilder};
use regex_syntax::hir::{Class, ClassBytes, ClassBytesRange, Hir, Look, Repetition};
use std::path::Path;

const ALPHA: &[u8] = b"abcA.-/_*";

pub struct RefLine {
    pub hir: Hir,
    pub whitelist: bool,
    pub only_dir: bool,
}

fn not_slash() -> Hir {
    Hir::class(Class::Bytes(ClassBytes::new([ClassBytesRange::new(0, b'/' - 1), ClassBytesRange::new(b'/' + 1, 255)])))
}
fn anything() -> Hir {
    Hir::class(Class::Bytes(ClassBytes::new([ClassBytesRange::new(0, 255)])))
}
fn star(h: Hir) -> Hir {
    Hir::repetition(Repetition { min: 0, max: None, greedy: true, sub: Box::new(h) })
}
fn plus(h: Hir) -> Hir {
    Hir::repetition(Repetition { min: 1, max: None, greedy: true, sub: Box::new(h) })
}
fn opt(h: Hir) -> Hir {
    Hir::repetition(Repetition { min: 0, max: Some(1), greedy: true, sub: Box::new(h) })
}
fn lit(c: u8, ci: bool) -> Hir {
    if ci && c.is_ascii_alphabetic() {
        Hir::class(Class::Bytes(ClassBytes::new([
            ClassBytesRange::new(c.to_ascii_lowercase(), c.to_ascii_lowercase()),
            ClassBytesRange::new(c.to_ascii_uppercase(), c.to_ascii_uppercase()),
        ])))
    } else {
        Hir::literal([c])
    }
}

/// gitignore(5), written from the man page.  Returns None for blank lines and
/// comments, Err for lines outside the reference's grammar (then no claim).
pub fn ref_line(line: &str, ci: bool) -> Result<Option<RefLine>, String> {
    if !line.is_ascii() {
        return Err("non-ascii".into());
    }
    let mut s = line.as_bytes().to_vec();
    if s.first() == Some(&b'#') {
        return Ok(None);
    }
    // trailing spaces are ignored unless quoted with a backslash
    while s.last() == Some(&b' ') && !(s.len() >= 2 && s[s.len() - 2] == b'\\') {
        s.pop();
    }
    if s.is_empty() {
        return Ok(None);
    }
    let mut whitelist = false;
    if s[0] == b'!' {
        whitelist = true;
        s.remove(0);
    } else if s[0] == b'\\' && s.len() >= 2 && (s[1] == b'!' || s[1] == b'#') {
        s.remove(0);
        // the literal ! or # stays as a plain character (pushed below as literal)
        let c = s.remove(0);
        return finish_ref(&s, vec![lit(c, ci)], whitelist, ci);
    }
    finish_ref(&s, vec![], whitelist, ci)
}

fn finish_ref(rest: &[u8], mut head: Vec<Hir>, whitelist: bool, ci: bool) -> Result<Option<RefLine>, String> {
    let mut s = rest.to_vec();
    let mut only_dir = false;
    // a trailing (unescaped) slash: directories only
    if s.last() == Some(&b'/') {
        only_dir = true;
        s.pop();
        if s.last() == Some(&b'\\') {
            // an escaped trailing slash is still just a slash
            s.pop();
        }
    }
    if s.is_empty() && head.is_empty() {
        return Err("empty pattern".into());
    }
    // a slash at the beginning or in the middle anchors the pattern
    let head_has = !head.is_empty();
    let anchored = s.contains(&b'/');
    let mut body = s.as_slice();
    if !head_has && body.first() == Some(&b'/') {
        body = &body[1..];
    }
    // tokenise
    let mut parts: Vec<Hir> = vec![];
    parts.append(&mut head);
    let mut i = 0;
    while i < body.len() {
        let c = body[i];
        match c {
            b'*' => {
                if i + 1 < body.len() && body[i + 1] == b'*' {
                    let at_start = i == 0 && parts.is_empty();
                    let prev_slash = i > 0 && body[i - 1] == b'/';
                    let next_slash = i + 2 < body.len() && body[i + 2] == b'/';
                    let at_end = i + 2 == body.len();
                    if (at_start || prev_slash) && next_slash {
                        // "**/" : zero or more whole directories
                        parts.push(opt(Hir::concat(vec![star(anything()), Hir::literal([b'/'])])));
                        i += 3;
                        continue;
                    } else if prev_slash && at_end {
                        // "/**" : everything inside
                        parts.push(plus(anything()));
                        i += 2;
                        continue;
                    } else if at_start && at_end {
                        parts.push(plus(anything()));
                        i += 2;
                        continue;
                    } else {
                        // other consecutive asterisks are regular asterisks
                        parts.push(star(not_slash()));
                        i += 2;
                        continue;
                    }
                }
                parts.push(star(not_slash()));
            }
            b'?' => parts.push(not_slash()),
            b'[' => {
                let mut j = i + 1;
                let mut neg = false;
                if j < body.len() && (body[j] == b'!' || body[j] == b'^') {
                    neg = true;
                    j += 1;
                }
                let start = j;
                let mut ranges = vec![];
                while j < body.len() && (body[j] != b']' || j == start) {
                    if body[j] == b'\\' || body[j] == b'[' || body[j] == b'/' {
                        return Err("class outside reference grammar".into());
                    }
                    if j + 2 < body.len() && body[j + 1] == b'-' && body[j + 2] != b']' {
                        if body[j] > body[j + 2] {
                            return Err("bad range".into());
                        }
                        ranges.push(ClassBytesRange::new(body[j], body[j + 2]));
                        j += 3;
                    } else {
                        ranges.push(ClassBytesRange::new(body[j], body[j]));
                        j += 1;
                    }
                }
                if j >= body.len() {
                    return Err("unclosed class".into());
                }
                let mut cls = ClassBytes::new(ranges);
                if ci {
                    cls.case_fold_simple();
                }
                if neg {
                    cls.negate();
                }
                // a class never matches the separator
                let mut ns = ClassBytes::new([ClassBytesRange::new(b'/', b'/')]);
                ns.negate();
                cls.intersect(&ns);
                parts.push(Hir::class(Class::Bytes(cls)));
                i = j;
            }
            b'\\' => {
                if i + 1 >= body.len() {
                    return Err("dangling escape".into());
                }
                parts.push(lit(body[i + 1], ci));
                i += 1;
            }
            c => parts.push(lit(c, ci)),
        }
        i += 1;
    }
    let mut all = vec![Hir::look(Look::Start)];
    if !anchored {
        // may match at any level below the ignore file's directory
        all.push(opt(Hir::concat(vec![star(anything()), Hir::literal([b'/'])])));
    }
    all.push(Hir::concat(parts));
    all.push(Hir::look(Look::End));
    Ok(Some(RefLine { hir: Hir::concat(all), whitelist, only_dir }))
}

// ---------------------------------------------------------------- corpus

const LTOK: &[&str] = &["a", "b", "A", ".", "*", "?", "**", "/", "[ab]", "[!a]", "\\*", "-", "c"];

pub fn line_corpus(tier: &str, seed: u64, repo: &Path) -> Vec<String> {
    let mut out: Vec<String> = vec![];
    if let Ok(s) = std::fs::read_to_string(repo.join("crates/ignore/src/gitignore.rs")) {
        if let Some(i) = s.find("#[cfg(test)]") {
            let mut rest = &s[i..];
            while let Some(k) = rest.find('"') {
                let after = &rest[k + 1..];
                if let Some(j) = after.find('"') {
                    let l = &after[..j];
                    if !l.is_empty() && l.len() <= 14 && l.is_ascii() && !l.contains('\\') && !l.contains("ROOT") {
                        out.push(l.to_string());
                    }
                    rest = &after[j + 1..];
                } else {
                    break;
                }
            }
        }
    }
    for s in [
        "foo", "foo/", "/foo", "/foo/", "foo/bar", "*.c", "!*.c", "/*.c", "a/*.c", "**/foo", "foo/**", "a/**/b", "**", "/**", "a**b",
        "a/**", "**/a/b", "!a", "\\!a", "\\#a", "#a", "a ", "a\\ ", " a", "[ab]c", "[!a]c", "a?c", "*", "?", "a/", "*/", "*/a",
        "a/b/", ".*", "*.", "a.b", "A", "a-b", "a*b", "*a*", "**/", "a/*/b", "/a/b", "a//b", "\\*", "a\\/",
    ] {
        out.push(s.to_string());
    }
    let mut rng = Rng(seed ^ 0x16f0);
    let n = if tier == "thorough" { 5000 } else { 700 };
    for _ in 0..n {
        let mut s = String::new();
        if rng.below(6) == 0 {
            s.push('!');
        }
        if rng.below(5) == 0 {
            s.push('/');
        }
        let len = 1 + rng.below(4);
        for _ in 0..len {
            s.push_str(LTOK[rng.below(LTOK.len())]);
        }
        if rng.below(5) == 0 {
            s.push('/');
        }
        // "//" is no path; three or more consecutive asterisks are a grey zone
        // of wildmatch outside gitignore(5)'s text: both left outside the claim
        if s.contains("//") || s.contains("***") {
            continue;
        }
        out.push(s);
    }
    let mut seen = std::collections::HashSet::new();
    out.retain(|p| seen.insert(p.clone()));
    out
}

// ---------------------------------------------------------------- path constraints

/// b[0..n) is a well-formed relative path over ALPHA: non-empty, no leading or
/// trailing slash, no empty component, no component equal to `.` or `..`
fn wellformed(enc: &mut Enc) {
    let l = enc.l;
    enc.assert("(>= n 1)");
    for i in 0..l {
        let alts: Vec<String> = ALPHA.iter().map(|c| format!("(= b{} #x{:02x})", i, c)).collect();
        enc.assert(&format!("(or (<= n {}) {})", i, alts.join(" ")));
    }
    enc.assert("(not (= b0 #x2f))");
    for i in 0..l {
        // last byte is not a slash
        enc.assert(&format!("(or (not (= n {})) (not (= b{} #x2f)))", i + 1, i));
        if i + 1 < l {
            enc.assert(&format!("(or (<= n {}) (not (and (= b{} #x2f) (= b{} #x2f))))", i + 1, i, i + 1));
        }
    }
    // no "." / ".." components
    for i in 0..l {
        let left = if i == 0 { "true".to_string() } else { format!("(= b{} #x2f)", i - 1) };
        // "." at i
        let right1 = if i + 1 < l { format!("(or (= n {}) (= b{} #x2f))", i + 1, i + 1) } else { format!("(= n {})", i + 1) };
        enc.assert(&format!("(or (<= n {}) (not (and {} (= b{} #x2e) {})))", i, left, i, right1));
        if i + 1 < l {
            let right2 = if i + 2 < l { format!("(or (= n {}) (= b{} #x2f))", i + 2, i + 2) } else { format!("(= n {})", i + 2) };
            enc.assert(&format!(
                "(or (<= n {}) (not (and {} (= b{} #x2e) (= b{} #x2e) {})))",
                i + 1,
                left,
                i,
                i + 1,
                right2
            ));
        }
    }
}

fn wit(v: &Verdict) -> Option<Vec<u8>> {
    if let Verdict::Sat { bytes, ints } = v {
        let n = ints.iter().find(|(k, _)| k == "n").map(|(_, v)| *v).unwrap_or(0) as usize;
        Some(bytes[..n.min(bytes.len())].to_vec())
    } else {
        None
    }
}

fn push(ctx: &mut Ctx, kind: &str, program: &str, status: &str, detail: String, w: Option<Vec<u8>>, nontrivial: bool) {
    ctx.results.push(ObResult { kind: kind.into(), program: program.into(), status: status.into(), detail, witness: w, nontrivial });
}

// ---------------------------------------------------------------- oracles

/// 0 = none, 1 = ignore, 2 = whitelist -- the real Gitignore, consulted top
/// down as the directory walker does (an ignored ancestor directory ends it)
fn rg_verdict(gi: &Gitignore, path: &[u8], is_dir: bool) -> u8 {
    let p = std::str::from_utf8(path).unwrap();
    let comps: Vec<&str> = p.split('/').collect();
    let mut cur = String::new();
    for (k, c) in comps.iter().enumerate() {
        if k > 0 {
            cur.push('/');
        }
        cur.push_str(c);
        let last = k + 1 == comps.len();
        let m = gi.matched(format!("/r/{}", cur), if last { is_dir } else { true });
        if m.is_ignore() {
            return 1;
        }
        if last && m.is_whitelist() {
            return 2;
        }
    }
    0
}

pub struct Git {
    dir: std::path::PathBuf,
}

impl Git {
    pub fn new() -> Option<Git> {
        let dir = std::env::temp_dir().join(format!("rgsmt-git-{}", std::process::id()));
        let _ = std::fs::remove_dir_all(&dir);
        std::fs::create_dir_all(&dir).ok()?;
        let ok = std::process::Command::new("git").arg("init").arg("-q").arg(&dir).status().ok()?.success();
        if ok {
            Some(Git { dir })
        } else {
            None
        }
    }
    /// 0 none, 1 ignore, 2 whitelisted (last matching pattern negated)
    pub fn verdict(&self, lines: &[String], ci: bool, path: &[u8], is_dir: bool) -> Option<u8> {
        let mut content = String::new();
        for l in lines {
            content.push_str(l);
            content.push('\n');
        }
        std::fs::write(self.dir.join(".gitignore"), content).ok()?;
        let p = String::from_utf8(path.to_vec()).ok()?;
        // the entry really exists (git resolves "is a directory" with lstat; a
        // trailing slash on a missing path is instead matched TEXTUALLY, so
        // that `*a/*` "matches" `xa/` -- an artifact, not git's verdict on the
        // directory xa)
        let comps: Vec<&str> = p.split('/').collect();
        if p.is_empty()
            || p.contains('\0')
            || comps.iter().any(|c| c.is_empty() || *c == "." || *c == ".." || c.eq_ignore_ascii_case(".git") || c.eq_ignore_ascii_case(".gitignore"))
        {
            return None;
        }
        let full = self.dir.join(&p);
        let top = self.dir.join(comps[0]);
        let made = if is_dir {
            std::fs::create_dir_all(&full).is_ok()
        } else {
            full.parent().map(|d| std::fs::create_dir_all(d).is_ok()).unwrap_or(false) && std::fs::write(&full, b"").is_ok()
        };
        struct Rm(std::path::PathBuf);
        impl Drop for Rm {
            fn drop(&mut self) {
                if self.0.is_dir() {
                    let _ = std::fs::remove_dir_all(&self.0);
                } else {
                    let _ = std::fs::remove_file(&self.0);
                }
            }
        }
        let _rm = Rm(top);
        if !made {
            return None;
        }
        let out = std::process::Command::new("git")
            .current_dir(&self.dir)
            .arg("-c")
            .arg(format!("core.ignorecase={}", if ci { "true" } else { "false" }))
            .arg("check-ignore")
            .arg("--no-index")
            .arg("-v")
            .arg("-n")
            .arg("--")
            .arg(&p)
            .output()
            .ok()?;
        let s = String::from_utf8_lossy(&out.stdout).to_string();
        let first = s.lines().next()?.to_string();
        let head = first.split('\t').next()?.to_string();
        if head == "::" {
            return Some(0);
        }
        // source:line:pattern
        let pat = head.splitn(3, ':').nth(2)?.to_string();
        Some(if pat.starts_with('!') { 2 } else { 1 })
    }
}

impl Drop for Git {
    fn drop(&mut self) {
        let _ = std::fs::remove_dir_all(&self.dir);
    }
}

fn build_gi(lines: &[String], ci: bool) -> Result<Gitignore, String> {
    let mut b = GitignoreBuilder::new("/r");
    b.case_insensitive(ci).map_err(|e| e.to_string())?;
    for l in lines {
        b.add_line(None, l).map_err(|e| e.to_string())?;
    }
    b.build().map_err(|e| e.to_string())
}

/// reference verdict of a whole file (last match wins; dir-only needs is_dir),
/// top down like git (an excluded parent directory decides)
fn ref_verdict(refs: &[(Nfa, bool, bool)], path: &[u8], is_dir: bool) -> u8 {
    let p = path;
    let mut ends: Vec<usize> = vec![];
    for (i, &c) in p.iter().enumerate() {
        if c == b'/' {
            ends.push(i);
        }
    }
    ends.push(p.len());
    for (k, &e) in ends.iter().enumerate() {
        let last = k + 1 == ends.len();
        let dir = if last { is_dir } else { true };
        let mut v = 0u8;
        for (nfa, wl, od) in refs {
            if (!*od || dir) && nfa.is_match(&p[..e], 0, e) {
                v = if *wl { 2 } else { 1 };
            }
        }
        if v == 1 {
            return 1;
        }
        if last {
            return v;
        }
    }
    0
}

// ---------------------------------------------------------------- driver

pub fn run_all(ctx: &mut Ctx, z3: &mut Z3, tier: &str, seed: u64, repo: &Path, si: usize, sn: usize, only: &str) -> usize {
    let corpus = line_corpus(tier, seed, repo);
    let l = ctx.l;
    let git = Git::new();
    let mut programs = 0usize;
    let mut good_lines: Vec<(String, bool)> = vec![];
    for (idx, line) in corpus.iter().enumerate() {
        if !only.is_empty() && !line.contains(only) {
            continue;
        }
        for ci in [false, true] {
            if ci && idx % 4 != 0 {
                continue;
            }
            let rl = match ref_line(line, ci) {
                Ok(Some(r)) => r,
                _ => continue,
            };
            let gi = match build_gi(&[line.clone()], ci) {
                Ok(g) => g,
                Err(_) => {
                    ctx.rejected += 1;
                    continue;
                }
            };
            if gi.is_empty() {
                continue;
            }
            good_lines.push((line.clone(), ci));
            if idx % sn != si {
                continue;
            }
            programs += 1;
            ctx.accepted += 1;
            let program = format!("{:?}{}", line, if ci { " --ignore-file-case-insensitive" } else { "" });
            let rnfa = match Nfa::from_hir(&rl.hir) {
                Ok(n) => n,
                Err(_) => continue,
            };
            if !ctx.want("I-LINE") {
                continue;
            }
            // 1. a path the reference says the line matches (witness for the
            //    flag comparison below; the line may match no path within the
            //    bound -- e.g. a leading blank, which git keeps as part of the
            //    pattern -- and is then still compared in step 3)
            let mut enc = Enc::new(l);
            wellformed(&mut enc);
            let s = enc.sim(&rnfa, "0", "n", None);
            enc.assert(&Enc::any(&s.m));
            ctx.queries += 1;
            let w: Vec<u8> = match z3.check(&enc) {
                v @ Verdict::Sat { .. } => wit(&v).unwrap(),
                Verdict::Unsat => b"a".to_vec(),
                Verdict::Unknown(e) => {
                    push(ctx, "I-LINE", &program, "inconclusive", e, None, false);
                    continue;
                }
            };
            // 2. the real compiled glob of the line (verif-hooks accessor of
            //    the ignore crate; one line, so one glob)
            let real_glob = match gi.verif_globs().first() {
                Some(g) => g.clone(),
                None => continue,
            };
            if real_glob.is_whitelist() != rl.whitelist || real_glob.is_only_dir() != rl.only_dir {
                let gv = git.as_ref().and_then(|g| g.verdict(&[line.clone()], ci, &w, false));
                let rv = rg_verdict(&gi, &w, false);
                let st = if gv.is_some() && (gv == Some(1)) != (rv == 1) { "failed" } else if gv.is_some() { "discharged" } else { "inconclusive" };
                push(ctx, "I-LINE", &program, st, format!("negation / directory-only flags differ from gitignore(5): ripgrep whitelist={} only_dir={}; on the path as a file ripgrep={} git={:?}", real_glob.is_whitelist(), real_glob.is_only_dir(), rv, gv), Some(w), false);
                continue;
            }
            let rebuilt = globset::GlobBuilder::new(real_glob.actual())
                .literal_separator(true)
                .case_insensitive(ci)
                .backslash_escape(true)
                .build();
            let rebuilt = match rebuilt {
                Ok(g) => g,
                Err(_) => continue,
            };
            let real_hir = match regex_syntax::ParserBuilder::new().utf8(false).dot_matches_new_line(true).build().parse(rebuilt.regex()) {
                Ok(h) => h,
                Err(_) => continue,
            };
            let gnfa = match Nfa::from_hir(&real_hir) {
                Ok(n) => n,
                Err(_) => continue,
            };
            // 3. equivalence over all well-formed paths up to L
            let mut enc = Enc::new(l);
            wellformed(&mut enc);
            let a = enc.sim(&gnfa, "0", "n", None);
            let b = enc.sim(&rnfa, "0", "n", None);
            enc.assert(&format!("(xor {} {})", Enc::any(&a.m), Enc::any(&b.m)));
            ctx.queries += 1;
            match z3.check(&enc) {
                Verdict::Unsat => push(ctx, "I-LINE", &program, "discharged", format!("glob {:?}", real_glob.actual()), None, true),
                v @ Verdict::Sat { .. } => {
                    let w2 = wit(&v).unwrap();
                    // decide with git, on the path as a file and as a directory
                    let mut st = "inconclusive";
                    let mut detail = String::new();
                    for is_dir in [false, true] {
                        let rv = rg_verdict(&gi, &w2, is_dir);
                        let gv = git.as_ref().and_then(|g| g.verdict(&[line.clone()], ci, &w2, is_dir));
                        let want = ref_verdict(&[(rnfa.clone(), rl.whitelist, rl.only_dir)], &w2, is_dir);
                        detail.push_str(&format!("[is_dir={} ripgrep={} git={:?} reference={}] ", is_dir, rv, gv, want));
                        if let Some(g) = gv {
                            if (g == 1) != (rv == 1) {
                                st = "failed";
                            }
                        }
                    }
                    push(ctx, "I-LINE", &program, st, format!("ripgrep's glob {:?} and gitignore(5) disagree on a path: {}", real_glob.actual(), detail), Some(w2), false);
                }
                Verdict::Unknown(e) => push(ctx, "I-LINE", &program, "inconclusive", e, None, false),
            }
        }
    }

    // ---- I-FILE: two-line files
    if ctx.want("I-FILE") && good_lines.len() >= 2 {
        let mut rng = Rng(seed ^ 0xf11e);
        let nfiles = if tier == "thorough" { 1500 } else { 240 };
        // seed-independent files first (among them the recorded finding's role)
        let fixed: Vec<(String, String, bool)> = [("a\\/", "b", false), ("*.c", "!a.c", false), ("a/", "!a/b", false), ("A*", "!ab", true)]
            .iter()
            .map(|(a, b, c)| (a.to_string(), b.to_string(), *c))
            .collect();
        for k in 0..nfiles + fixed.len() {
            let (l1, l2, c1) = if k < fixed.len() {
                fixed[k].clone()
            } else {
                let (l1, c1) = good_lines[rng.below(good_lines.len())].clone();
                let (l2, _c2) = good_lines[rng.below(good_lines.len())].clone();
                (l1, l2, c1)
            };
            if k % sn != si {
                continue;
            }
            let ci = c1;
            let lines = vec![l1.clone(), l2.clone()];
            let program = format!("file{:?}{}", lines, if ci { " --ignore-file-case-insensitive" } else { "" });
            let gi = match build_gi(&lines, ci) {
                Ok(g) => g,
                Err(_) => continue,
            };
            let mut refs = vec![];
            for ln in &lines {
                if let Ok(Some(r)) = ref_line(ln, ci) {
                    if let Ok(n) = Nfa::from_hir(&r.hir) {
                        refs.push((n, r.whitelist, r.only_dir));
                    }
                }
            }
            if refs.len() != 2 {
                continue;
            }
            programs += 1;
            let mut classes = 0;
            let mut bad: Option<(Vec<u8>, String)> = None;
            let mut suspect = false;
            for combo in 0..4u32 {
                let mut enc = Enc::new(l);
                wellformed(&mut enc);
                for (i, (nfa, _, _)) in refs.iter().enumerate() {
                    let s = enc.sim(nfa, "0", "n", None);
                    let t = Enc::any(&s.m);
                    if combo >> i & 1 == 1 {
                        enc.assert(&t);
                    } else {
                        enc.assert(&format!("(not {})", t));
                    }
                }
                ctx.queries += 1;
                if let v @ Verdict::Sat { .. } = z3.check(&enc) {
                    classes += 1;
                    let w = wit(&v).unwrap();
                    for is_dir in [false, true] {
                        let rv = rg_verdict(&gi, &w, is_dir);
                        let gv = git.as_ref().and_then(|g| g.verdict(&lines, ci, &w, is_dir));
                        let want = ref_verdict(&refs, &w, is_dir);
                        if let Some(g) = gv {
                            // what is observable: is the path skipped or not
                            if (g == 1) != (rv == 1) && bad.is_none() {
                                bad = Some((w.clone(), format!("is_dir={} ripgrep={} git={} reference={}", is_dir, rv, g, want)));
                            } else if (g == 1) == (rv == 1) && (g == 1) != (want == 1) {
                                suspect = true;
                            }
                        }
                    }
                }
            }
            match bad {
                Some((w, d)) => push(ctx, "I-FILE", &program, "failed", format!("ripgrep and git disagree: {}", d), Some(w), false),
                None if suspect => push(ctx, "I-FILE", &program, "inconclusive", "ripgrep agrees with git but not with the reference (reference suspect)".into(), None, false),
                None => push(ctx, "I-FILE", &program, "discharged", format!("{} verdict combinations x is_dir executed on ripgrep and git", classes), None, classes >= 2),
            }
        }
    }
    programs
}
