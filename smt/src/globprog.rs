//! C12 obligations (globs): per enumerated (glob, options) program the real
//! GlobBuilder is run; the regex it produced (`Glob::regex()`) is parsed with
//! the settings globset itself uses and encoded as a bounded NFA run.
//!
//!  G-STRAT  the match strategy the glob SET would choose for this glob
//!           (Glob::verif_strategy, the real MatchStrategy::new) means, for ALL
//!           paths up to L bytes, the same as the glob's own regex
//!  G-MEAN   for globs over the simple token subset (literals, ?, *, classes,
//!           escapes) the regex means what the documented syntax says
//!           (reference compiled independently from the glob text)
//!  G-SET    GlobSet::matches(path) == indices of member globs matching
//!           individually, on solver-generated paths: one path per satisfiable
//!           combination of member verdicts (concrete execution of the real
//!           set on solver-chosen inputs)

use crate::corpus::{hash_str, Rng};
use crate::nfa::Nfa;
use crate::smt::{Enc, Verdict, Z3};
use crate::{Ctx, ObResult};
use globset::{Glob, GlobBuilder, GlobSetBuilder};
use regex_syntax::hir::Hir;
use std::path::Path;

#[derive(Clone, Copy, Debug)]
pub struct GOpts {
    pub ci: bool,
    pub litsep: bool,
    pub bs: bool,
    pub empty_alt: bool,
}

impl GOpts {
    fn describe(&self) -> String {
        format!(
            "{}{}{}{}",
            if self.ci { " case_insensitive" } else { "" },
            if self.litsep { " literal_separator" } else { "" },
            if self.bs { " backslash_escape" } else { " no_backslash_escape" },
            if self.empty_alt { " empty_alternates" } else { "" }
        )
    }
}

fn build(glob: &str, o: &GOpts) -> Result<Glob, String> {
    GlobBuilder::new(glob)
        .case_insensitive(o.ci)
        .literal_separator(o.litsep)
        .backslash_escape(o.bs)
        .empty_alternates(o.empty_alt)
        .build()
        .map_err(|e| e.to_string())
}

fn regex_hir(re: &str) -> Result<Hir, String> {
    // same syntax settings as globset::new_regex
    regex_syntax::ParserBuilder::new()
        .utf8(false)
        .dot_matches_new_line(true)
        .build()
        .parse(re)
        .map_err(|e| e.to_string())
}

const TOKENS: &[&str] = &["a", "b", ".", "/", "?", "*", "**", "[ab]", "[!a]", "{a,b}", "\\*", "A", "-", "{a,}", "**/", "/**"];

pub fn glob_corpus(tier: &str, seed: u64, repo: &Path) -> Vec<String> {
    let mut out: Vec<String> = vec![];
    // globs from the repository's own tests
    for f in ["crates/globset/src/glob.rs", "crates/globset/src/lib.rs", "crates/ignore/src/gitignore.rs", "crates/ignore/src/overrides.rs"] {
        if let Ok(s) = std::fs::read_to_string(repo.join(f)) {
            let body = match s.find("#[cfg(test)]") {
                Some(i) => &s[i..],
                None => &s[..],
            };
            let mut rest = body;
            while let Some(i) = rest.find('"') {
                let after = &rest[i + 1..];
                if let Some(j) = after.find('"') {
                    let lit = &after[..j];
                    if !lit.is_empty()
                        && lit.len() <= 12
                        && !lit.contains('\\')
                        && !lit.contains(' ')
                        && lit.chars().any(|c| "*?[{/.".contains(c))
                    {
                        out.push(lit.to_string());
                    }
                    rest = &after[j + 1..];
                } else {
                    break;
                }
            }
        }
    }
    for t in TOKENS {
        out.push(t.to_string());
    }
    for a in TOKENS {
        for b in TOKENS {
            out.push(format!("{}{}", a, b));
        }
    }
    let mut rng = Rng(seed ^ 0x610b);
    let n3 = if tier == "thorough" { 6000 } else { 700 };
    for _ in 0..n3 {
        let len = 3 + rng.below(2);
        let mut s = String::new();
        for _ in 0..len {
            s.push_str(TOKENS[rng.below(TOKENS.len())]);
        }
        out.push(s);
    }
    for s in ["*.rs", "*.c", "foo.", "*.", "a.", "**/foo.", "**/*.rs", "src/**", "src/**/*.rs", "*.d/conf", "**/*.d/conf",
              "a*", "ab*", "a/**", "a/b/**", "*.a/b", "Makefile", "**/Makefile", "*.tar.gz", "foo/*", "*/foo", "**/a/b",
              "[a-c]x", "{*.a,*.b}", "{a/**,b}", "{b,a/**}", "{**/a,b}", "{a,b/**/c}", "{a*,?b}", "{a/**,b/**}", "{*/a,**}", "a?b", "*a", "**/.git", ".*", "*.[ch]"] {
        out.push(s.to_string());
    }
    let mut seen = std::collections::HashSet::new();
    out.retain(|p| seen.insert(p.clone()));
    out
}

fn options_for(glob: &str, tier: &str, seed: u64) -> Vec<GOpts> {
    let mut all = vec![];
    for m in 0..16u32 {
        all.push(GOpts { ci: m & 1 != 0, litsep: m & 2 != 0, bs: m & 4 != 0, empty_alt: m & 8 != 0 });
    }
    // defaults of GlobBuilder: backslash_escape on (unix), others off; ripgrep's
    // gitignore/override/types use literal_separator on
    let mut out = vec![
        GOpts { ci: false, litsep: false, bs: true, empty_alt: false },
        GOpts { ci: false, litsep: true, bs: true, empty_alt: false },
    ];
    let mut rng = Rng(hash_str(glob) ^ seed);
    let k = if tier == "thorough" { 6 } else { 2 };
    for _ in 0..k {
        out.push(all[rng.below(16)]);
    }
    out
}

// ---------------------------------------------------------------- SMT helpers

fn bytes_eq_at(l: usize, start: usize, lit: &[u8]) -> String {
    if start + lit.len() > l {
        return "false".into();
    }
    let mut parts = vec!["true".to_string()];
    for (k, &c) in lit.iter().enumerate() {
        parts.push(format!("(= b{} #x{:02x})", start + k, c));
    }
    format!("(and {})", parts.join(" "))
}

/// strategy meaning over spec-level path pieces, as an SMT term on b[0..n)
fn strategy_term(l: usize, kind: &str, lit: &[u8], component: bool) -> Option<String> {
    let k = lit.len();
    let mut alts: Vec<String> = vec!["false".into()];
    match kind {
        "Literal" => {
            alts.push(format!("(and (= n {}) {})", k, bytes_eq_at(l, 0, lit)));
        }
        "Prefix" => {
            alts.push(format!("(and (>= n {}) {})", k, bytes_eq_at(l, 0, lit)));
        }
        "Suffix" => {
            for n0 in k..=l {
                alts.push(format!("(and (= n {}) {})", n0, bytes_eq_at(l, n0 - k, lit)));
            }
            if component && k >= 1 {
                alts.push(format!("(and (= n {}) {})", k - 1, bytes_eq_at(l, 0, &lit[1..])));
            }
        }
        "BasenameLiteral" => {
            // basename(path) = bytes after the last '/', non-empty
            if lit.contains(&b'/') || k == 0 {
                return Some("false".into());
            }
            for n0 in k..=l {
                let s = n0 - k;
                let sep = if s == 0 { "true".to_string() } else { format!("(= b{} #x2f)", s - 1) };
                alts.push(format!("(and (= n {}) {} {})", n0, sep, bytes_eq_at(l, s, lit)));
            }
        }
        "Extension" | "RequiredExtension" => {
            // ext(path) = suffix of the basename from its last '.'
            if k == 0 || lit[0] != b'.' || lit[1..].contains(&b'.') || lit.contains(&b'/') {
                return Some("false".into());
            }
            for n0 in k..=l {
                alts.push(format!("(and (= n {}) {})", n0, bytes_eq_at(l, n0 - k, lit)));
            }
        }
        _ => return None,
    }
    Some(format!("(or {})", alts.join(" ")))
}

fn path_of(bytes: &[u8]) -> std::path::PathBuf {
    use std::os::unix::ffi::OsStrExt;
    std::path::PathBuf::from(std::ffi::OsStr::from_bytes(bytes))
}

fn push(ctx: &mut Ctx, kind: &str, program: &str, status: &str, detail: String, wit: Option<Vec<u8>>, nontrivial: bool) {
    ctx.results.push(ObResult {
        kind: kind.to_string(),
        program: program.to_string(),
        status: status.to_string(),
        detail,
        witness: wit,
        nontrivial,
    });
}

fn witness_bytes(v: &Verdict) -> Option<Vec<u8>> {
    if let Verdict::Sat { bytes, ints } = v {
        let n = ints.iter().find(|(k, _)| k == "n").map(|(_, v)| *v).unwrap_or(0) as usize;
        Some(bytes[..n.min(bytes.len())].to_vec())
    } else {
        None
    }
}

// ---------------------------------------------------------------- reference (simple subset)

/// `{x,y,..}` spanning the whole glob, one level, no escapes, classes or empty
/// branches: the branches; None otherwise.
fn whole_alternation(glob: &str) -> Option<Vec<String>> {
    let b = glob.as_bytes();
    if b.len() < 5 || b[0] != b'{' || b[b.len() - 1] != b'}' {
        return None;
    }
    let inner = &glob[1..glob.len() - 1];
    if inner.contains(|c| c == '{' || c == '}' || c == '\\' || c == '[' || c == ']') {
        return None;
    }
    let parts: Vec<String> = inner.split(',').map(|x| x.to_string()).collect();
    // a branch that BEGINS with `**` is left out: the documented positions of a
    // recursive wildcard are relative to the pattern, not to a branch
    if parts.len() < 2 || parts.iter().any(|x| x.is_empty() || x.starts_with("**")) {
        return None;
    }
    Some(parts)
}

/// Reference compilation of a glob over the simple token subset, written from
/// the documented syntax; None if the glob uses anything else.
fn reference_simple(glob: &str, o: &GOpts) -> Option<Hir> {
    use regex_syntax::hir::{Class, ClassBytes, ClassBytesRange};
    let any = |litsep: bool| -> Hir {
        let mut c = ClassBytes::new([ClassBytesRange::new(0, 255)]);
        if litsep {
            c = ClassBytes::new([ClassBytesRange::new(0, b'/' - 1), ClassBytesRange::new(b'/' + 1, 255)]);
        }
        Hir::class(Class::Bytes(c))
    };
    let lit = |c: u8, ci: bool| -> Hir {
        if ci && c.is_ascii_alphabetic() {
            Hir::class(Class::Bytes(ClassBytes::new([
                ClassBytesRange::new(c.to_ascii_lowercase(), c.to_ascii_lowercase()),
                ClassBytesRange::new(c.to_ascii_uppercase(), c.to_ascii_uppercase()),
            ])))
        } else {
            Hir::literal([c])
        }
    };
    let b = glob.as_bytes();
    if !glob.is_ascii() {
        return None;
    }
    let mut parts = vec![];
    let mut i = 0;
    while i < b.len() {
        match b[i] {
            b'*' => {
                if i + 1 < b.len() && b[i + 1] == b'*' {
                    return None;
                }
                if i > 0 && b[i - 1] == b'*' {
                    return None;
                }
                parts.push(Hir::repetition(regex_syntax::hir::Repetition {
                    min: 0,
                    max: None,
                    greedy: true,
                    sub: Box::new(any(o.litsep)),
                }));
            }
            b'?' => parts.push(any(o.litsep)),
            b'{' | b'}' | b',' => return None,
            b'[' => {
                // [ab] / [!ab] / [a-c] with plain ASCII members only
                let mut j = i + 1;
                let mut neg = false;
                if j < b.len() && (b[j] == b'!' || b[j] == b'^') {
                    neg = true;
                    j += 1;
                }
                let mut ranges = vec![];
                let start = j;
                while j < b.len() && (b[j] != b']' || j == start) {
                    if b[j] == b'\\' || b[j] == b'[' {
                        return None;
                    }
                    if j + 2 < b.len() && b[j + 1] == b'-' && b[j + 2] != b']' {
                        if b[j] > b[j + 2] {
                            return None;
                        }
                        ranges.push(ClassBytesRange::new(b[j], b[j + 2]));
                        j += 3;
                    } else {
                        ranges.push(ClassBytesRange::new(b[j], b[j]));
                        j += 1;
                    }
                }
                if j >= b.len() {
                    return None;
                }
                let mut c = ClassBytes::new(ranges);
                if o.ci {
                    c.case_fold_simple();
                }
                let has_sep = c.ranges().iter().any(|r| r.start() <= b'/' && b'/' <= r.end());
                if o.litsep && has_sep {
                    // whether a class that lists `/` itself (or spans it with a
                    // range) may match a literal separator is not documented:
                    // outside the reference's subset
                    return None;
                }
                if neg {
                    c.negate();
                    if o.litsep {
                        // "a literal / is required to match a path separator":
                        // what the class merely does not exclude is not literal
                        let mut sep = ClassBytes::new([ClassBytesRange::new(b'/', b'/')]);
                        sep.negate();
                        c.intersect(&sep);
                    }
                }
                parts.push(Hir::class(Class::Bytes(c)));
                i = j;
            }
            b'\\' => {
                if o.bs {
                    if i + 1 >= b.len() {
                        return None;
                    }
                    parts.push(lit(b[i + 1], o.ci));
                    i += 1;
                } else {
                    parts.push(lit(b'\\', o.ci));
                }
            }
            c => parts.push(lit(c, o.ci)),
        }
        i += 1;
    }
    Some(Hir::concat(vec![
        Hir::look(regex_syntax::hir::Look::Start),
        Hir::concat(parts),
        Hir::look(regex_syntax::hir::Look::End),
    ]))
}

// ---------------------------------------------------------------- driver

pub fn run_all(ctx: &mut Ctx, z3: &mut Z3, tier: &str, seed: u64, repo: &Path, si: usize, sn: usize, only: &str) -> usize {
    let corpus = glob_corpus(tier, seed, repo);
    let l = ctx.l;
    let mut programs = 0usize;
    let mut idx = 0usize;
    for g in &corpus {
        if !only.is_empty() && !g.contains(only) {
            continue;
        }
        for o in options_for(g, tier, seed) {
            idx += 1;
            if idx % sn != si {
                continue;
            }
            programs += 1;
            let program = format!("{:?}{}", g, o.describe());
            let glob = match build(g, &o) {
                Ok(x) => x,
                Err(_) => {
                    ctx.rejected += 1;
                    continue;
                }
            };
            ctx.accepted += 1;
            let hir = match regex_hir(glob.regex()) {
                Ok(h) => h,
                Err(e) => {
                    push(ctx, "encoder-validation", &program, "inconclusive", format!("cannot parse the glob's regex: {}", e), None, false);
                    continue;
                }
            };
            let nfa = match Nfa::from_hir(&hir) {
                Ok(n) => n,
                Err(_) => {
                    ctx.too_big += 1;
                    continue;
                }
            };
            // encoder validation against the real GlobMatcher (regex only) on samples
            let matcher = glob.compile_matcher();
            let mut bad = None;
            for h in ctx.samples.iter() {
                let mine = nfa.is_match(h, 0, h.len());
                let real = matcher.is_match(path_of(h));
                ctx.validated += 1;
                if mine != real {
                    bad = Some(h.clone());
                    break;
                }
            }
            if let Some(h) = bad {
                push(ctx, "encoder-validation", &program, "inconclusive", "encoder NFA disagrees with GlobMatcher".into(), Some(h), false);
                continue;
            }
            let nonvac = ctx.samples.iter().any(|h| nfa.is_match(h, 0, h.len())) || {
                let mut enc = Enc::new(l);
                let s = enc.sim(&nfa, "0", "n", None);
                enc.assert(&Enc::any(&s.m));
                ctx.queries += 1;
                matches!(z3.check(&enc), Verdict::Sat { .. })
            };

            // ---- G-STRAT
            if ctx.want("G-STRAT") {
                let (kind, lit, component) = glob.verif_strategy();
                if kind != "Regex" {
                    if let Some(st) = strategy_term(l, kind, lit.as_bytes(), component) {
                        let mut enc = Enc::new(l);
                        let s = enc.sim(&nfa, "0", "n", None);
                        let re = Enc::any(&s.m);
                        if kind == "RequiredExtension" {
                            enc.assert(&format!("(and {} (not {}))", re, st));
                        } else {
                            enc.assert(&format!("(xor {} {})", re, st));
                        }
                        ctx.queries += 1;
                        match z3.check(&enc) {
                            Verdict::Unsat => push(ctx, "G-STRAT", &program, "discharged", format!("{}({:?})", kind, lit), None, nonvac),
                            v @ Verdict::Sat { .. } => {
                                let h = witness_bytes(&v).unwrap();
                                // replay: the real set of this one glob vs the glob alone
                                let set = GlobSetBuilder::new().add(glob.clone()).build();
                                let st = match set {
                                    Ok(set) => {
                                        let a = set.is_match(path_of(&h));
                                        let b = matcher.is_match(path_of(&h));
                                        if a != b { "failed" } else { "inconclusive" }
                                    }
                                    Err(_) => "inconclusive",
                                };
                                push(ctx, "G-STRAT", &program, st, format!("strategy {}({:?}, component={}) and the glob's regex {} disagree on a path", kind, lit, component, glob.regex()), Some(h), false);
                            }
                            Verdict::Unknown(e) => push(ctx, "G-STRAT", &program, "inconclusive", e, None, false),
                        }
                    }
                }
            }

            // ---- G-MEAN (simple token subset)
            if ctx.want("G-MEAN") {
                if let Some(rh) = reference_simple(g, &o) {
                    if let Ok(rn) = Nfa::from_hir(&rh) {
                        let mut enc = Enc::new(l);
                        let a = enc.sim(&nfa, "0", "n", None);
                        let b = enc.sim(&rn, "0", "n", None);
                        enc.assert(&format!("(xor {} {})", Enc::any(&a.m), Enc::any(&b.m)));
                        ctx.queries += 1;
                        match z3.check(&enc) {
                            Verdict::Unsat => push(ctx, "G-MEAN", &program, "discharged", String::new(), None, nonvac),
                            v @ Verdict::Sat { .. } => {
                                let h = witness_bytes(&v).unwrap();
                                let real = matcher.is_match(path_of(&h));
                                let want = rn.is_match(&h, 0, h.len());
                                let st = if real != want { "failed" } else { "inconclusive" };
                                push(ctx, "G-MEAN", &program, st, format!("glob matcher says {}, documented meaning says {} (regex {})", real, want, glob.regex()), Some(h), false);
                            }
                            Verdict::Unknown(e) => push(ctx, "G-MEAN", &program, "inconclusive", e, None, false),
                        }
                    }
                }
            }

            // ---- G-ALT: a glob that is one whole alternation {x,y,..} means
            // the union of its branches compiled as globs of their own
            if ctx.want("G-MEAN") {
                if let Some(branches) = whole_alternation(g) {
                    let mut hs = vec![];
                    let mut ms = vec![];
                    for br in &branches {
                        if let Ok(bg) = build(br, &o) {
                            if let Ok(h) = regex_hir(bg.regex()) {
                                hs.push(h);
                                ms.push(bg.compile_matcher());
                            }
                        }
                    }
                    if hs.len() == branches.len() {
                        if let Ok(un) = Nfa::from_hir(&Hir::alternation(hs)) {
                            let mut enc = Enc::new(l);
                            let a = enc.sim(&nfa, "0", "n", None);
                            let b = enc.sim(&un, "0", "n", None);
                            enc.assert(&format!("(xor {} {})", Enc::any(&a.m), Enc::any(&b.m)));
                            ctx.queries += 1;
                            match z3.check(&enc) {
                                Verdict::Unsat => push(ctx, "G-MEAN", &program, "discharged", "alternation = union of its branches".into(), None, nonvac),
                                v @ Verdict::Sat { .. } => {
                                    let h = witness_bytes(&v).unwrap();
                                    let real = matcher.is_match(path_of(&h));
                                    let want = ms.iter().any(|m| m.is_match(path_of(&h)));
                                    let st = if real != want { "failed" } else { "inconclusive" };
                                    push(ctx, "G-MEAN", &program, st, format!("alternation says {}, its branches {:?} as globs of their own say {} (regex {})", real, branches, want, glob.regex()), Some(h), false);
                                }
                                Verdict::Unknown(e) => push(ctx, "G-MEAN", &program, "inconclusive", e, None, false),
                            }
                        }
                    }
                }
            }
        }
    }

    // ---- G-SET: sets of 2..3 accepted globs; one solver-chosen path per
    // satisfiable combination of member verdicts, executed on the real set
    // (the member pool is the WHOLE corpus under its first two option sets,
    // identical in every shard; the sets are then dealt out to the shards)
    let mut accepted: Vec<(String, GOpts, Glob)> = vec![];
    if ctx.want("G-SET") {
        for g in &corpus {
            if !only.is_empty() && !g.contains(only) {
                continue;
            }
            for o in options_for(g, tier, seed).into_iter().take(2) {
                if let Ok(glob) = build(g, &o) {
                    if regex_hir(glob.regex()).ok().and_then(|h| Nfa::from_hir(&h).ok()).is_some() {
                        accepted.push((g.clone(), o, glob));
                    }
                }
            }
        }
    }
    if ctx.want("G-SET") && accepted.len() >= 2 {
        let mut rng = Rng(seed ^ 0x5e7);
        let nsets = if tier == "thorough" { 400 } else { 60 };
        // candidate member lists: random ones, plus RELATED ones (same strategy
        // kind, one literal a prefix/suffix of the other or equal): the index
        // merging code of a strategy is only exercised when several of its
        // globs fire on the same path
        let mut member_lists: Vec<Vec<usize>> = vec![];
        for _ in 0..nsets {
            let k = 2 + rng.below(2);
            member_lists.push((0..k).map(|_| rng.below(accepted.len())).collect());
        }
        let strat: Vec<(&'static str, String)> = accepted.iter().map(|m| { let (k, l, _) = m.2.verif_strategy(); (k, l) }).collect();
        let per_kind = if tier == "thorough" { 200 } else { 40 };
        let mut related: std::collections::HashMap<&'static str, usize> = Default::default();
        for i in 0..accepted.len() {
            if strat[i].0 == "Regex" || *related.get(strat[i].0).unwrap_or(&0) >= per_kind {
                continue;
            }
            for j in 0..accepted.len() {
                if i == j || strat[i].0 != strat[j].0 {
                    continue;
                }
                let (a, b) = (&strat[i].1, &strat[j].1);
                if a.len() <= b.len() && (b.starts_with(a.as_str()) || b.ends_with(a.as_str())) {
                    // third member: another of the same kind if available
                    let third = (0..accepted.len()).find(|&t| t != i && t != j && strat[t].0 == strat[i].0 && strat[t].1 != *a && strat[t].1 != *b && (strat[t].1.starts_with(a.as_str()) || strat[t].1.ends_with(a.as_str())));
                    let mut v = vec![i, j];
                    if let Some(t) = third {
                        v.push(t);
                    }
                    member_lists.push(v);
                    let c = related.entry(strat[i].0).or_default();
                    *c += 1;
                    if *c >= per_kind {
                        break;
                    }
                }
            }
        }
        for (mi, ml) in member_lists.into_iter().enumerate() {
            if mi % sn != si {
                continue;
            }
            let k = ml.len();
            let members: Vec<&(String, GOpts, Glob)> = ml.iter().map(|&i| &accepted[i]).collect();
            let program = format!("set{:?}", members.iter().map(|m| format!("{}{}", m.0, m.1.describe())).collect::<Vec<_>>());
            let mut b = GlobSetBuilder::new();
            for m in &members {
                b.add(m.2.clone());
            }
            let set = match b.build() {
                Ok(s) => s,
                Err(_) => continue,
            };
            let nfas: Vec<Nfa> = members.iter().filter_map(|m| regex_hir(m.2.regex()).ok().and_then(|h| Nfa::from_hir(&h).ok())).collect();
            if nfas.len() != k {
                continue;
            }
            let matchers: Vec<_> = members.iter().map(|m| m.2.compile_matcher()).collect();
            let mut classes = 0;
            let mut bad: Option<(Vec<u8>, Vec<usize>, Vec<usize>)> = None;
            for combo in 0..(1u32 << k) {
                let mut enc = Enc::new(l);
                for (i, nfa) in nfas.iter().enumerate() {
                    let s = enc.sim(nfa, "0", "n", None);
                    let t = Enc::any(&s.m);
                    if combo >> i & 1 == 1 {
                        enc.assert(&t);
                    } else {
                        enc.assert(&format!("(not {})", t));
                    }
                }
                ctx.queries += 1;
                if let v @ Verdict::Sat { .. } = z3.check(&enc) {
                    classes += 1;
                    let h = witness_bytes(&v).unwrap();
                    let got = set.matches(path_of(&h));
                    let want: Vec<usize> = (0..k).filter(|&i| matchers[i].is_match(path_of(&h))).collect();
                    if got != want && bad.is_none() {
                        bad = Some((h, got, want));
                    }
                }
            }
            match bad {
                None => push(ctx, "G-SET", &program, "discharged", format!("{} satisfiable verdict combinations executed", classes), None, classes >= 2),
                Some((h, got, want)) => push(ctx, "G-SET", &program, "failed", format!("GlobSet::matches = {:?}, member globs individually = {:?}", got, want), Some(h), false),
            }
        }
    }
    programs
}
