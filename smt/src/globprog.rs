//! C12 obligations (globs) -- see DESIGN.md section 3.
use crate::smt::Z3;
use crate::Ctx;

pub fn run_all(_ctx: &mut Ctx, _z3: &mut Z3, _tier: &str, _seed: u64, _repo: &std::path::Path, _si: usize, _sn: usize, _only: &str) -> usize {
    0
}
