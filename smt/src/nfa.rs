//! Hir -> byte-level Thompson NFA, with look-around kept as guarded epsilon
//! edges, plus the "closure" form used by the SMT encoder and by the concrete
//! evaluator that validates the encoder against regex-automata.

use regex_syntax::hir::{self, Hir, HirKind, Look};
use regex_syntax::utf8::Utf8Sequences;

#[derive(Clone, Debug)]
pub enum Trans {
    Byte { lo: u8, hi: u8, to: usize },
    Eps(usize),
    Look(Look, usize),
}

#[derive(Clone, Debug, Default)]
pub struct Nfa {
    pub states: Vec<Vec<Trans>>,
    pub start: usize,
    pub accept: usize,
    /// closure[q] = minimal list of (core target, look mask) reachable from q
    /// without consuming input.  Core = has a byte transition or is accept.
    pub closure: Vec<Vec<(usize, u32)>>,
    pub core: Vec<bool>,
    pub uses_unicode_word: bool,
}

pub const MAX_STATES: usize = 6000;

#[derive(Debug)]
pub struct TooBig;

pub fn look_bit(l: Look) -> u32 {
    // regex-syntax gives every Look a distinct power-of-two repr
    l.as_repr()
}

pub const ALL_LOOKS: [Look; 18] = [
    Look::Start,
    Look::End,
    Look::StartLF,
    Look::EndLF,
    Look::StartCRLF,
    Look::EndCRLF,
    Look::WordAscii,
    Look::WordAsciiNegate,
    Look::WordUnicode,
    Look::WordUnicodeNegate,
    Look::WordStartAscii,
    Look::WordEndAscii,
    Look::WordStartUnicode,
    Look::WordEndUnicode,
    Look::WordStartHalfAscii,
    Look::WordEndHalfAscii,
    Look::WordStartHalfUnicode,
    Look::WordEndHalfUnicode,
];

impl Nfa {
    fn new_state(&mut self) -> Result<usize, TooBig> {
        if self.states.len() >= MAX_STATES {
            return Err(TooBig);
        }
        self.states.push(vec![]);
        Ok(self.states.len() - 1)
    }

    pub fn from_hir(h: &Hir) -> Result<Nfa, TooBig> {
        let mut n = Nfa::default();
        let s = n.new_state()?;
        let a = n.new_state()?;
        n.start = s;
        n.accept = a;
        n.compile(h, s, a)?;
        n.prune();
        n.finish();
        Ok(n)
    }

    /// add paths from `from` to `to` matching `h`
    fn compile(&mut self, h: &Hir, from: usize, to: usize) -> Result<(), TooBig> {
        match h.kind() {
            HirKind::Empty => self.states[from].push(Trans::Eps(to)),
            HirKind::Literal(hir::Literal(bytes)) => {
                let mut cur = from;
                for (i, &b) in bytes.iter().enumerate() {
                    let nxt = if i + 1 == bytes.len() { to } else { self.new_state()? };
                    self.states[cur].push(Trans::Byte { lo: b, hi: b, to: nxt });
                    cur = nxt;
                }
                if bytes.is_empty() {
                    self.states[from].push(Trans::Eps(to));
                }
            }
            HirKind::Class(hir::Class::Bytes(c)) => {
                for r in c.ranges() {
                    self.states[from].push(Trans::Byte { lo: r.start(), hi: r.end(), to });
                }
            }
            HirKind::Class(hir::Class::Unicode(c)) => {
                for r in c.ranges() {
                    for seq in Utf8Sequences::new(r.start(), r.end()) {
                        let rs = seq.as_slice();
                        let mut cur = from;
                        for (i, ur) in rs.iter().enumerate() {
                            let nxt = if i + 1 == rs.len() { to } else { self.new_state()? };
                            self.states[cur].push(Trans::Byte { lo: ur.start, hi: ur.end, to: nxt });
                            cur = nxt;
                        }
                    }
                }
            }
            HirKind::Look(l) => {
                match l {
                    Look::WordUnicode
                    | Look::WordUnicodeNegate
                    | Look::WordStartUnicode
                    | Look::WordEndUnicode
                    | Look::WordStartHalfUnicode
                    | Look::WordEndHalfUnicode => self.uses_unicode_word = true,
                    _ => {}
                }
                self.states[from].push(Trans::Look(*l, to));
            }
            HirKind::Capture(c) => self.compile(&c.sub, from, to)?,
            HirKind::Concat(hs) => {
                let mut cur = from;
                for (i, sub) in hs.iter().enumerate() {
                    let nxt = if i + 1 == hs.len() { to } else { self.new_state()? };
                    self.compile(sub, cur, nxt)?;
                    cur = nxt;
                }
                if hs.is_empty() {
                    self.states[from].push(Trans::Eps(to));
                }
            }
            HirKind::Alternation(hs) => {
                for sub in hs {
                    // private entry/exit so alternatives cannot leak into each other
                    let a = self.new_state()?;
                    let b = self.new_state()?;
                    self.states[from].push(Trans::Eps(a));
                    self.compile(sub, a, b)?;
                    self.states[b].push(Trans::Eps(to));
                }
            }
            HirKind::Repetition(rep) => {
                let min = rep.min as usize;
                let mut cur = from;
                for _ in 0..min {
                    let nxt = self.new_state()?;
                    self.compile(&rep.sub, cur, nxt)?;
                    cur = nxt;
                }
                match rep.max {
                    None => {
                        // cur -> (sub)* -> to
                        let lp = self.new_state()?;
                        self.states[cur].push(Trans::Eps(lp));
                        let body_end = self.new_state()?;
                        self.compile(&rep.sub, lp, body_end)?;
                        self.states[body_end].push(Trans::Eps(lp));
                        self.states[lp].push(Trans::Eps(to));
                    }
                    Some(max) => {
                        let extra = (max as usize).saturating_sub(min);
                        for _ in 0..extra {
                            self.states[cur].push(Trans::Eps(to));
                            let nxt = self.new_state()?;
                            self.compile(&rep.sub, cur, nxt)?;
                            cur = nxt;
                        }
                        self.states[cur].push(Trans::Eps(to));
                    }
                }
            }
        }
        Ok(())
    }

    fn finish(&mut self) {
        let n = self.states.len();
        self.core = vec![false; n];
        for q in 0..n {
            self.core[q] = q == self.accept
                || self.states[q].iter().any(|t| matches!(t, Trans::Byte { .. }));
        }
        self.closure = vec![vec![]; n];
        let mut need = vec![false; n];
        need[self.start] = true;
        for q in 0..n {
            for t in &self.states[q] {
                if let Trans::Byte { to, .. } = t {
                    need[*to] = true;
                }
            }
        }
        for q in 0..n {
            if !need[q] {
                continue;
            }
            let mut seen: std::collections::HashSet<(usize, u32)> = Default::default();
            let mut stack = vec![(q, 0u32)];
            while let Some((s, m)) = stack.pop() {
                if !seen.insert((s, m)) {
                    continue;
                }
                for t in &self.states[s] {
                    match t {
                        Trans::Eps(to) => stack.push((*to, m)),
                        Trans::Look(l, to) => stack.push((*to, m | look_bit(*l))),
                        Trans::Byte { .. } => {}
                    }
                }
            }
            let mut out = vec![];
            let mut by_target: std::collections::HashMap<usize, Vec<u32>> = Default::default();
            for &(t, m) in seen.iter() {
                if self.core[t] {
                    by_target.entry(t).or_default().push(m);
                }
            }
            for (&s, ms) in by_target.iter() {
                for &m in ms {
                    // keep only minimal masks (a superset mask is implied)
                    if !ms.iter().any(|&b| b != m && b & m == b) {
                        out.push((s, m));
                    }
                }
            }
            out.sort();
            self.closure[q] = out;
        }
    }

    /// Restrict the automaton to ASCII input: drop every byte transition that
    /// cannot fire on a byte < 0x80 and clip the others.  Sound exactly when
    /// the query also assumes all bytes < 0x80 (Enc::assume_ascii).
    pub fn restrict_ascii(&self) -> Nfa {
        let mut n = self.clone();
        for q in 0..n.states.len() {
            let mut v = vec![];
            for t in n.states[q].drain(..) {
                match t {
                    Trans::Byte { lo, hi, to } => {
                        if lo < 0x80 {
                            v.push(Trans::Byte { lo, hi: hi.min(0x7f), to });
                        }
                    }
                    other => v.push(other),
                }
            }
            n.states[q] = v;
        }
        // drop states that became unreachable / dead by recomputing core+closure
        n.prune();
        n.finish();
        n
    }

    /// remove states not reachable from start or that cannot reach accept
    fn prune(&mut self) {
        let n = self.states.len();
        let mut fwd = vec![false; n];
        let mut st = vec![self.start];
        while let Some(q) = st.pop() {
            if fwd[q] {
                continue;
            }
            fwd[q] = true;
            for t in &self.states[q] {
                let to = match t {
                    Trans::Byte { to, .. } => *to,
                    Trans::Eps(to) => *to,
                    Trans::Look(_, to) => *to,
                };
                st.push(to);
            }
        }
        let mut rev: Vec<Vec<usize>> = vec![vec![]; n];
        for q in 0..n {
            for t in &self.states[q] {
                let to = match t {
                    Trans::Byte { to, .. } => *to,
                    Trans::Eps(to) => *to,
                    Trans::Look(_, to) => *to,
                };
                rev[to].push(q);
            }
        }
        let mut bwd = vec![false; n];
        let mut st = vec![self.accept];
        while let Some(q) = st.pop() {
            if bwd[q] {
                continue;
            }
            bwd[q] = true;
            for &p in &rev[q] {
                st.push(p);
            }
        }
        for q in 0..n {
            if !(fwd[q] && bwd[q]) {
                self.states[q].clear();
            } else {
                self.states[q].retain(|t| {
                    let to = match t {
                        Trans::Byte { to, .. } => *to,
                        Trans::Eps(to) => *to,
                        Trans::Look(_, to) => *to,
                    };
                    fwd[to] && bwd[to]
                });
            }
        }
    }

    pub fn n_core(&self) -> usize {
        self.core.iter().filter(|c| **c).count()
    }

    pub fn core_states(&self) -> Vec<usize> {
        (0..self.states.len()).filter(|&q| self.core[q]).collect()
    }
}

// ---------------------------------------------------------------------------
// concrete semantics (used to validate the encoder against regex-automata and
// to evaluate reference matchers on witnesses)

pub fn is_word_byte(b: u8) -> bool {
    b.is_ascii_alphanumeric() || b == b'_'
}

/// Evaluate a look at position `i` of haystack `h[lo..hi]`.  The Unicode word
/// looks are modelled for haystacks over the alphabet "ASCII plus well-formed
/// U+00E9 (C3 A9)", which is what callers restrict inputs to whenever such a
/// look is present: U+00E9 is a word character; as in regex-automata, the
/// half-boundary and negated looks fail when the neighbouring side does not
/// decode (a position splitting the C3 A9 pair).
pub fn look_holds(l: Look, h: &[u8], lo: usize, hi: usize, i: usize) -> bool {
    let prev = if i > lo { Some(h[i - 1]) } else { None };
    let next = if i < hi { Some(h[i]) } else { None };
    let wb = prev.map_or(false, is_word_byte);
    let wa = next.map_or(false, is_word_byte);
    let e_before = i >= lo + 2 && h[i - 2] == 0xC3 && h[i - 1] == 0xA9;
    let e_after = i + 1 < hi && h[i] == 0xC3 && h[i + 1] == 0xA9;
    let dec_prev_ok = match prev {
        None => true,
        Some(b) => b < 0x80 || e_before,
    };
    let dec_next_ok = match next {
        None => true,
        Some(b) => b < 0x80 || e_after,
    };
    let wbu = wb || e_before;
    let wau = wa || e_after;
    match l {
        Look::Start => i == lo,
        Look::End => i == hi,
        Look::StartLF => i == lo || prev == Some(b'\n'),
        Look::EndLF => i == hi || next == Some(b'\n'),
        Look::StartCRLF => {
            i == lo || prev == Some(b'\n') || (prev == Some(b'\r') && next != Some(b'\n'))
        }
        Look::EndCRLF => {
            i == hi || next == Some(b'\r') || (next == Some(b'\n') && prev != Some(b'\r'))
        }
        Look::WordAscii => wb != wa,
        Look::WordAsciiNegate => wb == wa,
        Look::WordStartAscii => !wb && wa,
        Look::WordEndAscii => wb && !wa,
        Look::WordStartHalfAscii => !wb,
        Look::WordEndHalfAscii => !wa,
        Look::WordUnicode => wbu != wau,
        Look::WordUnicodeNegate => dec_prev_ok && dec_next_ok && wbu == wau,
        Look::WordStartUnicode => !wbu && wau,
        Look::WordEndUnicode => wbu && !wau,
        Look::WordStartHalfUnicode => dec_prev_ok && !wbu,
        Look::WordEndHalfUnicode => dec_next_ok && !wau,
    }
}

/// haystack is over "ASCII plus well-formed C3 A9 pairs"
pub fn is_ascii_eacute(h: &[u8]) -> bool {
    let mut i = 0;
    while i < h.len() {
        if h[i] < 0x80 {
            i += 1;
        } else if h[i] == 0xC3 && i + 1 < h.len() && h[i + 1] == 0xA9 {
            i += 2;
        } else {
            return false;
        }
    }
    true
}

fn mask_holds(m: u32, h: &[u8], lo: usize, hi: usize, i: usize) -> bool {
    ALL_LOOKS.iter().all(|&l| m & look_bit(l) == 0 || look_holds(l, h, lo, hi, i))
}

impl Nfa {
    /// All (start, end) spans matched in haystack h[lo..hi] (look-around sees
    /// only lo..hi), as a set of (s,e).
    pub fn all_matches(&self, h: &[u8], lo: usize, hi: usize) -> Vec<(usize, usize)> {
        let mut out = vec![];
        for s in lo..=hi {
            let mut cur: Vec<bool> = vec![false; self.states.len()];
            for &(t, m) in &self.closure[self.start] {
                if mask_holds(m, h, lo, hi, s) {
                    cur[t] = true;
                }
            }
            let mut i = s;
            loop {
                if cur[self.accept] {
                    out.push((s, i));
                }
                if i >= hi {
                    break;
                }
                let b = h[i];
                let mut nxt = vec![false; self.states.len()];
                let mut any = false;
                for q in 0..self.states.len() {
                    if !cur[q] {
                        continue;
                    }
                    for t in &self.states[q] {
                        if let Trans::Byte { lo: l, hi: u, to } = t {
                            if *l <= b && b <= *u {
                                for &(c, m) in &self.closure[*to] {
                                    if mask_holds(m, h, lo, hi, i + 1) {
                                        nxt[c] = true;
                                        any = true;
                                    }
                                }
                            }
                        }
                    }
                }
                if !any {
                    break;
                }
                cur = nxt;
                i += 1;
            }
        }
        out
    }

    pub fn is_match(&self, h: &[u8], lo: usize, hi: usize) -> bool {
        !self.all_matches(h, lo, hi).is_empty()
    }
}
